//! tokio shim: the executor, `spawn`, `Handle` and the timer are the simulator's; `sync` and
//! `task_local!` are real tokio code (driven by the simulator's wakers).  `mpsc::Receiver::recv`
//! yields once before receiving so that a consumer loop does not drain its queue in one poll
//! (the scheduler decides whether it continues or another task runs first).
pub use tokio_real::task_local;
pub mod task {
    pub use tokio_real::task::*;
}
pub mod sync {
    pub use tokio_real::sync::*;
    pub mod mpsc {
        pub use tokio_real::sync::mpsc::error;
        use tokio_real::sync::mpsc as real;
        pub struct Sender<T>(real::Sender<T>);
        impl<T> Clone for Sender<T> {
            fn clone(&self) -> Self {
                Sender(self.0.clone())
            }
        }
        pub struct Receiver<T>(real::Receiver<T>);
        pub fn channel<T>(n: usize) -> (Sender<T>, Receiver<T>) {
            let (tx, rx) = real::channel(n);
            (Sender(tx), Receiver(rx))
        }
        impl<T> Sender<T> {
            pub async fn send(&self, v: T) -> Result<(), error::SendError<T>> {
                self.0.send(v).await
            }
            pub fn try_send(&self, v: T) -> Result<(), error::TrySendError<T>> {
                self.0.try_send(v)
            }
            pub fn is_closed(&self) -> bool {
                self.0.is_closed()
            }
        }
        impl<T> Receiver<T> {
            pub async fn recv(&mut self) -> Option<T> {
                vsim::yield_once().await;
                self.0.recv().await
            }
            pub fn try_recv(&mut self) -> Result<T, error::TryRecvError> {
                self.0.try_recv()
            }
            pub fn close(&mut self) {
                self.0.close()
            }
        }
    }
}

use std::future::Future;
use std::marker::PhantomData;

pub struct JoinHandle<T>(PhantomData<T>);

pub fn spawn<F>(f: F) -> JoinHandle<F::Output>
where
    F: Future + Send + 'static,
    F::Output: Send + 'static,
{
    let label = std::any::type_name::<F>();
    vsim::spawn_labeled(
        label,
        Box::pin(async move {
            let _ = f.await;
        }),
    );
    JoinHandle(PhantomData)
}

pub mod runtime {
    use super::*;
    #[derive(Clone)]
    pub struct Handle;
    impl Handle {
        pub fn current() -> Handle {
            assert!(vsim::installed(), "tokio shim: Handle::current() outside of a simulation");
            Handle
        }
        pub fn spawn<F>(&self, f: F) -> JoinHandle<F::Output>
        where
            F: Future + Send + 'static,
            F::Output: Send + 'static,
        {
            super::spawn(f)
        }
    }
}

pub mod time {
    pub use std::time::Duration;
    use std::{
        future::Future,
        pin::Pin,
        task::{Context, Poll},
    };
    pub struct Interval {
        period_us: i64,
        next_us: i64,
    }
    /// like tokio: the first tick completes immediately
    pub fn interval(d: Duration) -> Interval {
        Interval { period_us: (d.as_micros() as i64).max(1), next_us: vsim::peek_now_us() }
    }
    struct Until(i64);
    impl Future for Until {
        type Output = ();
        fn poll(self: Pin<&mut Self>, cx: &mut Context<'_>) -> Poll<()> {
            if vsim::peek_now_us() >= self.0 {
                return Poll::Ready(());
            }
            vsim::add_timer(self.0, cx.waker().clone());
            Poll::Pending
        }
    }
    impl Interval {
        /// tokio's default missed-tick behaviour is "burst": ticks that were missed fire
        /// back to back until the schedule has caught up
        pub async fn tick(&mut self) {
            let at = self.next_us;
            self.next_us += self.period_us;
            Until(at).await
        }
    }
    pub async fn sleep(d: Duration) {
        let at = vsim::peek_now_us() + d.as_micros() as i64;
        Until(at).await
    }
}
