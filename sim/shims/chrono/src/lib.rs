//! chrono shim: `Utc::now()` reads the simulated clock (the only part of chrono the engine uses).
use std::marker::PhantomData;
pub struct Utc;
pub struct DateTime<Tz> {
    us: i64,
    _p: PhantomData<Tz>,
}
impl Utc {
    pub fn now() -> DateTime<Utc> {
        DateTime { us: vsim::now_us(), _p: PhantomData }
    }
}
impl<Tz> DateTime<Tz> {
    pub fn timestamp_millis(&self) -> i64 {
        self.us.div_euclid(1000)
    }
    pub fn timestamp_micros(&self) -> i64 {
        self.us
    }
    pub fn timestamp(&self) -> i64 {
        self.us.div_euclid(1_000_000)
    }
}
