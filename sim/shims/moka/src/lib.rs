//! moka shim: the real moka cache behind a wrapper that applies pending maintenance after every
//! operation, so that what is evicted and when is a deterministic function of the operation
//! sequence (real moka defers it to a real-time housekeeper).
pub use moka_real::*;
pub mod sync {
    pub use moka_real::sync::*;
    use std::borrow::Borrow;
    use std::hash::Hash;
    pub struct Cache<K, V> {
        inner: moka_real::sync::Cache<K, V>,
    }
    impl<K, V> Clone for Cache<K, V> {
        fn clone(&self) -> Self {
            Self { inner: self.inner.clone() }
        }
    }
    impl<K: Hash + Eq + Send + Sync + 'static, V: Clone + Send + Sync + 'static> Cache<K, V> {
        pub fn new(cap: u64) -> Self {
            Self { inner: moka_real::sync::Cache::new(cap) }
        }
        pub fn get<Q: Hash + Eq + ?Sized>(&self, k: &Q) -> Option<V>
        where
            K: Borrow<Q>,
        {
            let v = self.inner.get(k);
            self.inner.run_pending_tasks();
            v
        }
        pub fn insert(&self, k: K, v: V) {
            self.inner.insert(k, v);
            self.inner.run_pending_tasks();
        }
        pub fn remove<Q: Hash + Eq + ?Sized>(&self, k: &Q) -> Option<V>
        where
            K: Borrow<Q>,
        {
            let v = self.inner.remove(k);
            self.inner.run_pending_tasks();
            v
        }
        pub fn invalidate<Q: Hash + Eq + ?Sized>(&self, k: &Q)
        where
            K: Borrow<Q>,
        {
            self.inner.invalidate(k);
            self.inner.run_pending_tasks();
        }
        pub fn contains_key<Q: Hash + Eq + ?Sized>(&self, k: &Q) -> bool
        where
            K: Borrow<Q>,
        {
            self.inner.contains_key(k)
        }
        pub fn iter(&self) -> moka_real::sync::Iter<'_, K, V> {
            self.inner.iter()
        }
        pub fn run_pending_tasks(&self) {
            self.inner.run_pending_tasks()
        }
        pub fn entry_count(&self) -> u64 {
            self.inner.entry_count()
        }
    }
}
