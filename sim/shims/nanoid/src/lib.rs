//! nanoid shim: ids come from the simulator's id sub-stream.
pub fn gen(n: usize) -> String {
    vsim::gen_id(n)
}
#[macro_export]
macro_rules! nanoid {
    () => {
        $crate::gen(21)
    };
    ($n:expr) => {
        $crate::gen($n)
    };
    ($n:expr, $a:expr) => {{
        let _ = $a;
        $crate::gen($n)
    }};
}
