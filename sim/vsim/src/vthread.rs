//! Layer 2: virtual threads.
//!
//! A virtual thread is a real OS thread, but exactly one of them holds the *baton* at any time; the
//! others are parked on their own condition variable.  The baton moves only at scheduling points:
//! before every acquisition of an engine lock (hook H3), when a lock turns out to be held by another
//! virtual thread (forced), at the executor's task boundaries and when a virtual thread finishes.
//! Which thread gets the baton, and whether a lock point preempts at all, are traced decisions of
//! the simulation, so an interleaving is exactly a decision trace and replays.
//!
//! OS threads (not coroutines) on purpose: the engine's `task_local!` scope is thread-local state
//! and QuickJS checks its C stack.
use crate::site;
use std::cell::Cell;
use std::sync::{Arc, Condvar, Mutex};

#[derive(Clone, Copy, PartialEq, Debug)]
enum St {
    Runnable,
    /// failed a try-lock: eligible again once another thread has passed a scheduling point
    Blocked,
    /// the executor thread with no ready task: runnable again when a task becomes ready
    Idle,
    Done,
}

struct Shared {
    cur: usize,
    st: Vec<St>,
    names: Vec<String>,
    preempt_permille: u32,
    pub points: u64,
    pub switches: u64,
    pub forced: u64,
    deadlock: Option<String>,
}

struct Group {
    m: Mutex<Shared>,
    cvs: Vec<Condvar>,
}

static GROUP: Mutex<Option<Arc<Group>>> = Mutex::new(None);

thread_local! {
    static ME: Cell<usize> = const { Cell::new(usize::MAX) };
}

pub const MAX_THREADS: usize = 16;

pub struct Stats {
    pub points: u64,
    pub switches: u64,
    pub forced: u64,
    pub deadlock: Option<String>,
}

fn group() -> Option<Arc<Group>> {
    GROUP.lock().unwrap_or_else(|e| e.into_inner()).clone()
}

/// start a group; the calling thread becomes virtual thread 0 and holds the baton
pub fn begin(preempt_permille: u32) {
    let g = Arc::new(Group {
        m: Mutex::new(Shared { cur: 0, st: vec![St::Runnable], names: vec!["main".into()], preempt_permille, points: 0, switches: 0, forced: 0, deadlock: None }),
        cvs: (0..MAX_THREADS).map(|_| Condvar::new()).collect(),
    });
    *GROUP.lock().unwrap_or_else(|e| e.into_inner()) = Some(g);
    ME.with(|m| m.set(0));
}

pub fn end() -> Stats {
    let g = GROUP.lock().unwrap_or_else(|e| e.into_inner()).take();
    ME.with(|m| m.set(usize::MAX));
    match g {
        Some(g) => {
            let s = g.m.lock().unwrap_or_else(|e| e.into_inner());
            Stats { points: s.points, switches: s.switches, forced: s.forced, deadlock: s.deadlock.clone() }
        }
        None => Stats { points: 0, switches: 0, forced: 0, deadlock: None },
    }
}

pub fn active() -> bool {
    ME.with(|m| m.get()) != usize::MAX && group().is_some()
}

/// spawn a virtual thread; it first runs when the baton is handed to it.  Called by the baton holder;
/// returns after the new OS thread has started and parked (deterministic thread creation order)
pub fn spawn(name: &str, f: impl FnOnce() + Send + 'static) -> std::thread::JoinHandle<()> {
    let g = group().expect("vthread::spawn outside of a group");
    let id = {
        let mut s = g.m.lock().unwrap();
        let id = s.st.len();
        assert!(id < MAX_THREADS, "too many virtual threads");
        s.st.push(St::Runnable);
        s.names.push(name.to_string());
        id
    };
    let started = Arc::new((Mutex::new(false), Condvar::new()));
    let started2 = started.clone();
    let g2 = g.clone();
    let h = std::thread::Builder::new()
        .name(format!("vt-{}", name))
        .stack_size(16 << 20)
        .spawn(move || {
            // fix this thread's RandomState keys before anything else (deterministic per thread index)
            let _ = std::collections::hash_map::RandomState::new();
            ME.with(|m| m.set(id));
            {
                let (m, cv) = &*started2;
                *m.lock().unwrap() = true;
                cv.notify_all();
            }
            // wait for the baton
            {
                let mut s = g2.m.lock().unwrap();
                while s.cur != id {
                    s = g2.cvs[id].wait(s).unwrap();
                }
            }
            let r = std::panic::catch_unwind(std::panic::AssertUnwindSafe(f));
            let _ = r;
            finish();
        })
        .expect("spawn vthread");
    let (m, cv) = &*started;
    let mut ok = m.lock().unwrap();
    while !*ok {
        ok = cv.wait(ok).unwrap();
    }
    h
}

fn eligible(s: &Shared, i: usize, ready: bool) -> bool {
    match s.st[i] {
        St::Runnable => true,
        St::Idle => ready,
        _ => false,
    }
}

fn hand_over(g: &Arc<Group>, mut s: std::sync::MutexGuard<'_, Shared>, me: usize, next: usize) {
    s.cur = next;
    s.switches += 1;
    g.cvs[next].notify_all();
    while s.cur != me {
        s = g.cvs[me].wait(s).unwrap();
    }
}

/// scheduling point.  `forced`: the caller cannot continue (lock held by another thread / nothing to
/// do) and must give the baton away if anybody can run.
/// returns false when forced and nobody else can run.
pub fn point(forced: bool) -> bool {
    let me = ME.with(|m| m.get());
    if me == usize::MAX {
        return false;
    }
    let Some(g) = group() else { return false };
    let ready = crate::ready_len() > 0;
    let (n_threads, preempt) = {
        let s = g.m.lock().unwrap();
        (s.st.len(), s.preempt_permille)
    };
    if n_threads <= 1 {
        return !forced;
    }
    // decisions are drawn without holding the group lock (the simulation has its own lock)
    let want_switch = forced || crate::chance(site::PREEMPT, preempt);
    let mut s = g.m.lock().unwrap();
    s.points += 1;
    // somebody passed a scheduling point: threads that failed a try-lock may try again
    for i in 0..s.st.len() {
        if i != me && s.st[i] == St::Blocked {
            s.st[i] = St::Runnable;
        }
    }
    let others: Vec<usize> = (0..s.st.len()).filter(|&i| i != me && eligible(&s, i, ready)).collect();
    if others.is_empty() {
        if forced {
            return false;
        }
        return true;
    }
    if !want_switch {
        return true;
    }
    if forced {
        s.forced += 1;
    }
    drop(s);
    let k = crate::choose(site::VTHREAD, others.len() as u32) as usize;
    let next = others[k];
    let s = g.m.lock().unwrap();
    hand_over(&g, s, me, next);
    true
}

/// the caller failed a try-lock: mark it blocked and give the baton away.
/// returns true when the caller should try again, false when no other thread can run
/// (the engine deadlocked on its own locks; recorded)
pub fn lock_blocked(addr: usize) -> bool {
    let me = ME.with(|m| m.get());
    if me == usize::MAX {
        return false;
    }
    let Some(g) = group() else { return false };
    {
        let mut s = g.m.lock().unwrap();
        if s.st.len() <= 1 {
            return false;
        }
        s.st[me] = St::Blocked;
    }
    let ok = point(true);
    let mut s = g.m.lock().unwrap();
    s.st[me] = St::Runnable;
    if !ok {
        if s.deadlock.is_none() {
            s.deadlock = Some(format!("virtual thread {} ({}) waits for lock {:#x} and no other thread can run: {:?}", me, s.names[me], addr, s.st));
        }
        return false;
    }
    true
}

/// the executor thread has nothing ready: wait (as Idle) until a task becomes ready or everybody else is done.
/// returns false when every other thread is done (or stuck) and nothing is ready
pub fn idle() -> bool {
    let me = ME.with(|m| m.get());
    if me == usize::MAX {
        return false;
    }
    let Some(g) = group() else { return false };
    {
        let mut s = g.m.lock().unwrap();
        s.st[me] = St::Idle;
    }
    let ok = point(true);
    let mut s = g.m.lock().unwrap();
    s.st[me] = St::Runnable;
    ok
}

pub fn all_others_done() -> bool {
    let me = ME.with(|m| m.get());
    let Some(g) = group() else { return true };
    let s = g.m.lock().unwrap();
    (0..s.st.len()).all(|i| i == me || s.st[i] == St::Done)
}

fn finish() {
    let me = ME.with(|m| m.get());
    let Some(g) = group() else { return };
    let ready = crate::ready_len() > 0;
    let mut s = g.m.lock().unwrap();
    s.st[me] = St::Done;
    for i in 0..s.st.len() {
        if s.st[i] == St::Blocked {
            s.st[i] = St::Runnable;
        }
    }
    // hand the baton on: any eligible thread, else thread 0 (the executor, possibly idle)
    let others: Vec<usize> = (0..s.st.len()).filter(|&i| i != me && eligible(&s, i, ready)).collect();
    let next = if others.is_empty() { 0 } else { others[0] };
    s.cur = next;
    s.switches += 1;
    g.cvs[next].notify_all();
}
