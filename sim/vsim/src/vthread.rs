//! Layer 2: virtual threads (placeholder until the lock facade hook lands).
