//! vsim — deterministic simulator core (no dependency on the system under test).
//!
//! One `Sim` is installed in a process-global slot per simulated run.  It owns
//!  * the executor: every future the system spawns (through the tokio shim) is a task here and
//!    the scheduler — not the OS — chooses which ready task is polled next;
//!  * the clock: simulated micro-seconds, advanced by a seeded delta on every read and jumped to
//!    the next timer when nothing is runnable;
//!  * the id source (nanoid shim) and the generation sequence number of every id;
//!  * the decision stream: every run-time choice goes through `choose(site, n)` and is appended to
//!    the decision trace; a replay feeds a recorded trace back instead of the PRNG;
//!  * engine epochs: tasks and timers belong to the engine instance that created them, `crash`
//!    drops them without running them;
//!  * the event log (hash + optional text) and counters.
//!
//! Layer 2 (virtual threads released one at a time at intercepted lock operations) lives in
//! `vthread`.

pub mod rng;
pub mod vthread;

use rng::Rng;
use std::collections::{BTreeMap, HashMap};
use std::future::Future;
use std::pin::Pin;
use std::sync::{Arc, Mutex};
use std::task::{Context, Poll, Wake, Waker};

pub type BoxFut = Pin<Box<dyn Future<Output = ()> + Send + 'static>>;

/// choice sites (recorded in the decision trace)
pub mod site {
    pub const SCHED: u16 = 1; // which ready task is polled next
    pub const PRIO: u16 = 2; // PCT priority of a new task
    pub const PCT_POINT: u16 = 3; // PCT priority change point
    pub const CLIENT: u16 = 10; // which open act a client answers / which action
    pub const FAULT: u16 = 11; // whether / which fault fires at a quiescent point
    pub const HARNESS: u16 = 12; // other harness choices made while running
    pub const VTHREAD: u16 = 20; // which virtual thread gets the baton
    pub const PREEMPT: u16 = 21; // preempt at a lock point or not
    pub const TIMER: u16 = 30; // order of timers that are due at the same instant
}

#[derive(Clone, Copy, Debug, PartialEq, Eq)]
pub enum Policy {
    Fifo,
    Lifo,
    Random,
    /// random with a bias to the oldest ready task (percent)
    OldestBiased(u32),
    /// PCT-style: random priorities, `d` priority change points over the expected run length
    Pct(u32),
}

impl Policy {
    pub fn name(&self) -> String {
        match self {
            Policy::Fifo => "fifo".into(),
            Policy::Lifo => "lifo".into(),
            Policy::Random => "random".into(),
            Policy::OldestBiased(p) => format!("oldest{}", p),
            Policy::Pct(d) => format!("pct{}", d),
        }
    }
    pub fn parse(s: &str) -> Option<Policy> {
        match s {
            "fifo" => Some(Policy::Fifo),
            "lifo" => Some(Policy::Lifo),
            "random" => Some(Policy::Random),
            _ if s.starts_with("oldest") => s[6..].parse().ok().map(Policy::OldestBiased),
            _ if s.starts_with("pct") => s[3..].parse().ok().map(Policy::Pct),
            _ => None,
        }
    }
}

#[derive(Clone, Debug)]
pub struct Knobs {
    pub policy: Policy,
    /// probability (per mille) that a clock read does not advance the clock (µs tie)
    pub tie_permille: u32,
    /// maximum clock advance per read, in µs (>= 1)
    pub max_delta_us: u32,
    /// expected number of scheduling steps (PCT change point placement)
    pub pct_len: u32,
    /// keep the text of the event log (otherwise only its hash)
    pub keep_log: bool,
}

impl Default for Knobs {
    fn default() -> Self {
        Knobs { policy: Policy::Random, tie_permille: 20, max_delta_us: 40, pct_len: 400, keep_log: false }
    }
}

pub const EPOCH_START_US: i64 = 1_700_000_000_000_000;

#[derive(Clone, Debug, Default)]
pub struct Stats {
    pub polls: u64,
    pub spawned: u64,
    pub choices: u64,
    pub clock_reads: u64,
    pub clock_ties: u64,
    pub timers_fired: u64,
    pub ids: u64,
    pub crashes: u64,
    pub tasks_dropped_by_crash: u64,
    pub sched_nontrivial: u64, // scheduling choices with more than one ready task
    pub sched_nonfifo: u64,    // ... where the choice was not the oldest
    pub max_ready: u64,
}

enum Source {
    Rng(Rng),
    Replay { list: Vec<(u16, u32, u32)>, pos: usize, strict: bool },
}

struct TaskEntry {
    fut: Option<BoxFut>,
    label: &'static str,
    epoch: u32,
    prio: u32,
}

struct Timer {
    at: i64,
    seq: u64,
    waker: Waker,
    epoch: u32,
}

pub struct Sim {
    pub seed: u64,
    src: Source,
    pub trace: Vec<(u16, u32, u32)>,
    pub diverged: Option<String>,
    id_rng: Rng,
    clock_rng: Rng,
    id_seq: HashMap<String, (u64, u64)>,
    activity: u64,
    next_id_seq: u64,
    tasks: BTreeMap<u64, TaskEntry>,
    ready: Arc<Mutex<Vec<u64>>>,
    next_task: u64,
    now_us: i64,
    timers: Vec<Timer>,
    timer_seq: u64,
    pub knobs: Knobs,
    cur_epoch: u32,
    next_epoch: u32,
    seq: u64,
    log_hash: u64,
    sched_hash: u64,
    log_lines: Vec<String>,
    pub stats: Stats,
    pub panics: Vec<String>,
    pct_points: Vec<u64>,
    pct_low: u32,
}

static SIM: Mutex<Option<Sim>> = Mutex::new(None);

struct W {
    id: u64,
    ready: Arc<Mutex<Vec<u64>>>,
}
impl Wake for W {
    fn wake(self: Arc<Self>) {
        self.wake_by_ref()
    }
    fn wake_by_ref(self: &Arc<Self>) {
        let mut r = self.ready.lock().unwrap_or_else(|e| e.into_inner());
        if !r.contains(&self.id) {
            r.push(self.id);
        }
    }
}

pub fn installed() -> bool {
    SIM.lock().unwrap_or_else(|e| e.into_inner()).is_some()
}

pub fn with<R>(f: impl FnOnce(&mut Sim) -> R) -> R {
    let mut g = SIM.lock().unwrap_or_else(|e| e.into_inner());
    f(g.as_mut().expect("vsim: no simulation installed"))
}

fn try_with<R>(f: impl FnOnce(&mut Sim) -> R) -> Option<R> {
    let mut g = SIM.lock().unwrap_or_else(|e| e.into_inner());
    g.as_mut().map(f)
}

const FNV_OFF: u64 = 0xcbf29ce484222325;
const FNV_PRIME: u64 = 0x100000001b3;
pub fn fnv(mut h: u64, bytes: &[u8]) -> u64 {
    for b in bytes {
        h ^= *b as u64;
        h = h.wrapping_mul(FNV_PRIME);
    }
    h
}
pub fn hash_str(s: &str) -> u64 {
    fnv(FNV_OFF, s.as_bytes())
}

/// install a simulation driven by the PRNG
pub fn install(seed: u64, knobs: Knobs) {
    install_with(seed, knobs, None, false)
}

/// install a simulation that replays a recorded decision list (lenient: beyond the list, or on a
/// site mismatch, the default choice 0 is taken; strict: a mismatch is recorded in `diverged`)
pub fn install_replay(seed: u64, knobs: Knobs, decisions: Vec<(u16, u32, u32)>, strict: bool) {
    install_with(seed, knobs, Some(decisions), strict)
}

fn install_with(seed: u64, knobs: Knobs, decisions: Option<Vec<(u16, u32, u32)>>, strict: bool) {
    let mut base = Rng::new(seed ^ 0x9e3779b97f4a7c15);
    let dec = Rng::new(base.next_u64());
    let id_rng = Rng::new(base.next_u64());
    let clock_rng = Rng::new(base.next_u64());
    let mut pct_rng = Rng::new(base.next_u64());
    let mut pct_points = Vec::new();
    if let Policy::Pct(d) = knobs.policy {
        for _ in 0..d {
            pct_points.push(pct_rng.below(knobs.pct_len.max(1) as u64));
        }
        pct_points.sort();
    }
    let src = match decisions {
        Some(list) => Source::Replay { list, pos: 0, strict },
        None => Source::Rng(dec),
    };
    let sim = Sim {
        seed,
        src,
        trace: Vec::new(),
        diverged: None,
        id_rng,
        clock_rng,
        id_seq: HashMap::new(),
        activity: 0,
        next_id_seq: 0,
        tasks: BTreeMap::new(),
        ready: Arc::new(Mutex::new(Vec::new())),
        next_task: 0,
        now_us: EPOCH_START_US,
        timers: Vec::new(),
        timer_seq: 0,
        knobs,
        cur_epoch: 0,
        next_epoch: 1,
        seq: 0,
        log_hash: FNV_OFF,
        sched_hash: FNV_OFF,
        log_lines: Vec::new(),
        stats: Stats::default(),
        panics: Vec::new(),
        pct_points,
        pct_low: 1000,
    };
    *SIM.lock().unwrap_or_else(|e| e.into_inner()) = Some(sim);
}

pub struct Report {
    pub trace: Vec<(u16, u32, u32)>,
    pub diverged: Option<String>,
    pub log_hash: u64,
    pub sched_hash: u64,
    pub log_lines: Vec<String>,
    pub stats: Stats,
    pub now_us: i64,
    pub panics: Vec<String>,
}

/// remove the simulation; every remaining task is dropped (not run)
pub fn uninstall() -> Report {
    let sim = SIM.lock().unwrap_or_else(|e| e.into_inner()).take().expect("vsim: not installed");
    let Sim { trace, diverged, log_hash, sched_hash, log_lines, stats, now_us, tasks, timers, panics, .. } = sim;
    // drop outside of the lock: destructors may call back into (a now absent) simulation
    drop(tasks);
    drop(timers);
    Report { trace, diverged, log_hash, sched_hash, log_lines, stats, now_us, panics }
}

impl Sim {
    fn choose(&mut self, site: u16, n: u32) -> u32 {
        debug_assert!(n >= 1);
        self.stats.choices += 1;
        let k = match &mut self.src {
            Source::Rng(r) => {
                if n <= 1 { 0 } else { r.below(n as u64) as u32 }
            }
            Source::Replay { list, pos, strict } => {
                let k = match list.get(*pos) {
                    Some(&(s, m, k)) if s == site && m == n => k,
                    Some(&(s, m, k)) => {
                        if *strict && self.diverged.is_none() {
                            self.diverged = Some(format!(
                                "decision {}: recorded (site {}, n {}) but the run asked (site {}, n {})",
                                pos, s, m, site, n
                            ));
                        }
                        // lenient: keep the recorded choice when it still fits the same site
                        if s == site && k < n { k } else { 0 }
                    }
                    None => 0,
                };
                *pos += 1;
                k
            }
        };
        self.trace.push((site, n, k));
        k
    }

    /// a choice whose distribution is decided by the caller when running from the PRNG
    /// (`pick` gets the PRNG); a replay takes the recorded value
    fn choose_with(&mut self, site: u16, n: u32, pick: impl FnOnce(&mut Rng) -> u32) -> u32 {
        self.stats.choices += 1;
        let k = match &mut self.src {
            Source::Rng(r) => {
                if n <= 1 { 0 } else { pick(r).min(n - 1) }
            }
            Source::Replay { .. } => {
                self.stats.choices -= 1;
                return self.choose(site, n);
            }
        };
        self.trace.push((site, n, k));
        k
    }

    fn log(&mut self, line: &str) {
        self.seq += 1;
        self.log_hash = fnv(self.log_hash, line.as_bytes());
        self.log_hash = fnv(self.log_hash, b"\n");
        if self.knobs.keep_log {
            let l = format!("[{:>5} t+{}us] {}", self.seq, self.now_us - EPOCH_START_US, line);
            self.log_lines.push(l);
        }
    }
}

/// a traced run-time choice in 0..n (uniform when running from the PRNG); 0 is "the boring option"
pub fn choose(site: u16, n: u32) -> u32 {
    if n <= 1 {
        return 0;
    }
    with(|s| s.choose(site, n))
}

/// true with probability permille/1000 (traced)
pub fn chance(site: u16, permille: u32) -> bool {
    if permille == 0 {
        return false;
    }
    if permille >= 1000 {
        return true;
    }
    // n = 1000 keeps the site/n pair stable; k < permille means "yes", so the boring option 0
    // would be "yes": invert so that 0 = no
    with(|s| s.choose(site, 1000)) >= 1000 - permille
}

pub fn log(line: &str) {
    with(|s| s.log(line));
}

/// append to the event log only when a simulation is installed
pub fn try_log(line: &str) {
    try_with(|s| s.log(line));
}

/// global event sequence number (advanced by every log line and every poll)
pub fn seq() -> u64 {
    with(|s| s.seq)
}

pub fn bump_seq() -> u64 {
    with(|s| {
        s.seq += 1;
        s.seq
    })
}

// ---------------------------------------------------------------------------------------------
// clock and timers

/// read the clock as the system under test does: advances it by a seeded delta
pub fn now_us() -> i64 {
    with(|s| {
        s.stats.clock_reads += 1;
        let tie = s.knobs.tie_permille;
        let maxd = s.knobs.max_delta_us.max(1) as u64;
        let r = s.clock_rng.below(1000) as u32;
        let d = if r < tie {
            s.stats.clock_ties += 1;
            0
        } else {
            1 + s.clock_rng.below(maxd) as i64
        };
        s.now_us += d;
        s.now_us
    })
}

/// read the clock without advancing it (harness only)
pub fn peek_now_us() -> i64 {
    with(|s| s.now_us)
}

/// forward clock jump (fault / harness)
pub fn jump_us(dt: i64) {
    assert!(dt >= 0);
    with(|s| s.now_us += dt);
}

pub fn add_timer(at: i64, waker: Waker) {
    with(|s| {
        s.timer_seq += 1;
        let t = Timer { at, seq: s.timer_seq, waker, epoch: s.cur_epoch };
        s.timers.push(t);
    })
}

/// the instant of the earliest pending timer
pub fn next_timer_at() -> Option<i64> {
    with(|s| s.timers.iter().map(|t| t.at).min())
}

/// fire every timer that is due at the current instant; returns how many fired
pub fn fire_due_timers() -> usize {
    let wakers: Vec<Waker> = with(|s| {
        let now = s.now_us;
        let mut due: Vec<Timer> = Vec::new();
        let mut i = 0;
        while i < s.timers.len() {
            if s.timers[i].at <= now {
                due.push(s.timers.swap_remove(i));
            } else {
                i += 1;
            }
        }
        due.sort_by_key(|t| (t.at, t.seq));
        s.stats.timers_fired += due.len() as u64;
        due.into_iter().map(|t| t.waker).collect()
    });
    let n = wakers.len();
    for w in wakers {
        w.wake();
    }
    n
}

/// jump the clock to the next timer and fire it (and everything else due then)
pub fn advance_to_next_timer() -> bool {
    match next_timer_at() {
        None => false,
        Some(at) => {
            with(|s| {
                if at > s.now_us {
                    s.now_us = at;
                }
            });
            fire_due_timers();
            true
        }
    }
}

// ---------------------------------------------------------------------------------------------
// ids

const ALPHABET: &[u8] = b"0123456789abcdefghijklmnopqrstuvwxyzABCDEFGHIJKLMNOPQRSTUVWXYZ";

/// a fresh id of `n` characters from the id sub-stream; its generation sequence number is kept
pub fn gen_id(n: usize) -> String {
    match try_with(|s| {
        let id: String = (0..n).map(|_| ALPHABET[s.id_rng.below(62) as usize] as char).collect();
        s.next_id_seq += 1;
        s.stats.ids += 1;
        let q = s.next_id_seq;
        let act = s.activity;
        s.id_seq.insert(id.clone(), (q, act));
        id
    }) {
        Some(id) => id,
        None => {
            // outside of a simulation (e.g. while the harness builds a model): a process-wide counter
            use std::sync::atomic::{AtomicU64, Ordering};
            static C: AtomicU64 = AtomicU64::new(0);
            let c = C.fetch_add(1, Ordering::Relaxed);
            let s = format!("{:0>width$}", format!("x{}", c), width = n);
            s[s.len() - n.min(s.len())..].to_string()
        }
    }
}

/// generation sequence number of an id produced by `gen_id` in this run
pub fn id_seq(id: &str) -> Option<u64> {
    with(|s| s.id_seq.get(id).map(|x| x.0))
}

/// the activity (poll or harness call) during which the id was generated
pub fn id_activity(id: &str) -> Option<u64> {
    with(|s| s.id_seq.get(id).map(|x| x.1))
}

/// a new activity begins (every poll is one; the harness calls this before every client call)
pub fn next_activity() -> u64 {
    with(|s| {
        s.activity += 1;
        s.activity
    })
}

// ---------------------------------------------------------------------------------------------
// epochs (engine instances)

/// start a new epoch and make it current; everything spawned from now on belongs to it
pub fn epoch_begin() -> u32 {
    with(|s| {
        let e = s.next_epoch;
        s.next_epoch += 1;
        s.cur_epoch = e;
        e
    })
}

pub fn set_epoch(e: u32) {
    with(|s| s.cur_epoch = e)
}

pub fn cur_epoch() -> u32 {
    with(|s| s.cur_epoch)
}

/// process kill: drop every task and timer of the epoch without running them
pub fn crash(epoch: u32) {
    let (dropped_tasks, dropped_timers) = with(|s| {
        let ids: Vec<u64> = s.tasks.iter().filter(|(_, t)| t.epoch == epoch).map(|(id, _)| *id).collect();
        let mut dropped = Vec::new();
        for id in &ids {
            if let Some(t) = s.tasks.remove(id) {
                dropped.push(t);
            }
        }
        s.ready.lock().unwrap().retain(|id| !ids.contains(id));
        let mut timers = Vec::new();
        let mut i = 0;
        while i < s.timers.len() {
            if s.timers[i].epoch == epoch {
                timers.push(s.timers.swap_remove(i));
            } else {
                i += 1;
            }
        }
        s.stats.crashes += 1;
        s.stats.tasks_dropped_by_crash += dropped.len() as u64;
        (dropped, timers)
    });
    // destructors run outside of the lock
    drop(dropped_tasks);
    drop(dropped_timers);
}

// ---------------------------------------------------------------------------------------------
// executor

pub fn spawn_labeled(label: &'static str, fut: BoxFut) {
    with(|s| {
        let id = s.next_task;
        s.next_task += 1;
        s.stats.spawned += 1;
        let prio = if let Policy::Pct(_) = s.knobs.policy { 1000 + s.choose(site::PRIO, 1 << 16) } else { 0 };
        let epoch = s.cur_epoch;
        s.tasks.insert(id, TaskEntry { fut: Some(fut), label, epoch, prio });
        s.ready.lock().unwrap().push(id);
    })
}

pub fn spawn(fut: BoxFut) {
    spawn_labeled("task", fut)
}

pub fn ready_len() -> usize {
    with(|s| s.ready.lock().unwrap().len())
}

pub fn task_count() -> usize {
    with(|s| s.tasks.len())
}

/// labels of the tasks that exist (ready or waiting)
pub fn task_labels() -> Vec<(&'static str, bool)> {
    with(|s| {
        let r = s.ready.lock().unwrap().clone();
        s.tasks.iter().map(|(id, t)| (t.label, r.contains(id))).collect()
    })
}

/// choose one ready task (scheduler policy / replay) and poll it once.
/// returns false when no task is ready.
pub fn step() -> bool {
    fire_due_timers();
    let picked = with(|s| {
        let mut ready = s.ready.lock().unwrap();
        // tasks removed by a crash may still be named by a late waker
        ready.retain(|id| s.tasks.contains_key(id));
        if ready.is_empty() {
            return None;
        }
        // FIFO order = order of becoming ready
        let n = ready.len();
        let cand: Vec<u64> = ready.clone();
        drop(ready);
        s.stats.max_ready = s.stats.max_ready.max(n as u64);
        let policy = s.knobs.policy;
        let k = if n == 1 {
            0
        } else {
            s.stats.sched_nontrivial += 1;
            let k = match policy {
                Policy::Fifo => s.choose_with(site::SCHED, n as u32, |_| 0),
                Policy::Lifo => s.choose_with(site::SCHED, n as u32, |_| n as u32 - 1),
                Policy::Random => s.choose(site::SCHED, n as u32),
                Policy::OldestBiased(p) => s.choose_with(site::SCHED, n as u32, |r| {
                    if r.below(100) < p as u64 { 0 } else { r.below(n as u64) as u32 }
                }),
                Policy::Pct(_) => {
                    // highest priority first
                    let mut best = 0usize;
                    for (i, id) in cand.iter().enumerate() {
                        if s.tasks[id].prio > s.tasks[&cand[best]].prio {
                            best = i;
                        }
                    }
                    let b = best as u32;
                    s.choose_with(site::SCHED, n as u32, |_| b)
                }
            };
            if k != 0 {
                s.stats.sched_nonfifo += 1;
            }
            k
        };
        let id = cand[k as usize];
        s.ready.lock().unwrap().retain(|x| *x != id);
        // PCT change point: lower the priority of the task that is about to run
        if let Policy::Pct(_) = policy {
            let polls = s.stats.polls;
            if s.pct_points.first().map(|p| *p <= polls).unwrap_or(false) {
                s.pct_points.remove(0);
                s.pct_low -= 1;
                let low = s.pct_low;
                if let Some(t) = s.tasks.get_mut(&id) {
                    t.prio = low;
                }
            }
        }
        let e = s.tasks.get_mut(&id).unwrap();
        let fut = e.fut.take();
        let label = e.label;
        let epoch = e.epoch;
        s.cur_epoch = epoch;
        s.stats.polls += 1;
        s.activity += 1;
        s.seq += 1;
        s.sched_hash = fnv(s.sched_hash, label.as_bytes());
        s.sched_hash = fnv(s.sched_hash, &[k as u8]);
        fut.map(|f| (id, f, s.ready.clone()))
    });
    let Some((id, mut fut, ready)) = picked else {
        return with(|s| !s.ready.lock().unwrap().is_empty());
    };
    let waker = Waker::from(Arc::new(W { id, ready }));
    let mut cx = Context::from_waker(&waker);
    let r = std::panic::catch_unwind(std::panic::AssertUnwindSafe(|| fut.as_mut().poll(&mut cx)));
    let r = match r {
        Ok(r) => r,
        Err(p) => {
            // like a real runtime: a panicking task dies, the others go on
            let msg = p.downcast_ref::<String>().cloned().or_else(|| p.downcast_ref::<&str>().map(|s| s.to_string())).unwrap_or_default();
            let e = with(|s| {
                let label = s.tasks.get(&id).map(|t| t.label).unwrap_or("?");
                s.panics.push(format!("{}: {}", label, msg));
                s.tasks.remove(&id)
            });
            drop(e);
            std::mem::forget(fut); // its state may be inconsistent
            return true;
        }
    };
    match r {
        Poll::Ready(()) => {
            let e = with(|s| s.tasks.remove(&id));
            drop(e);
            drop(fut);
        }
        Poll::Pending => {
            let leftover = with(|s| match s.tasks.get_mut(&id) {
                Some(e) => {
                    e.fut = Some(fut);
                    None
                }
                None => Some(fut), // crashed while running (cannot happen in layer 1)
            });
            drop(leftover);
        }
    }
    true
}

#[derive(Debug, Clone, Copy, PartialEq, Eq)]
pub enum Outcome {
    Quiescent,
    StepCap,
}

/// run until no task is ready (timers that become due on the way are fired)
pub fn run_until_quiescent(step_cap: u64) -> Outcome {
    let mut n = 0u64;
    loop {
        if !step() {
            if fire_due_timers() == 0 {
                return Outcome::Quiescent;
            }
            continue;
        }
        n += 1;
        if n >= step_cap {
            return Outcome::StepCap;
        }
    }
}

/// a future that yields once (the scheduler decides who runs next)
pub struct YieldOnce(bool);
impl Future for YieldOnce {
    type Output = ();
    fn poll(mut self: Pin<&mut Self>, cx: &mut Context<'_>) -> Poll<()> {
        if self.0 {
            Poll::Ready(())
        } else {
            self.0 = true;
            cx.waker().wake_by_ref();
            Poll::Pending
        }
    }
}
pub fn yield_once() -> YieldOnce {
    YieldOnce(false)
}

/// drive a future to completion on the calling thread with a no-op waker (for futures that never
/// really wait, such as `EngineBuilder::build`)
pub fn block_on_ready<F: Future>(f: F) -> F::Output {
    let mut f = Box::pin(f);
    let w = Waker::noop();
    let mut cx = Context::from_waker(w);
    let mut spins = 0;
    loop {
        if let Poll::Ready(v) = f.as_mut().poll(&mut cx) {
            return v;
        }
        spins += 1;
        assert!(spins < 1000, "block_on_ready: future does wait");
    }
}
