//! SplitMix64-seeded xoshiro256** — small, fast, reproducible everywhere.

#[derive(Clone, Debug)]
pub struct Rng {
    s: [u64; 4],
}

fn splitmix(x: &mut u64) -> u64 {
    *x = x.wrapping_add(0x9e3779b97f4a7c15);
    let mut z = *x;
    z = (z ^ (z >> 30)).wrapping_mul(0xbf58476d1ce4e5b9);
    z = (z ^ (z >> 27)).wrapping_mul(0x94d049bb133111eb);
    z ^ (z >> 31)
}

/// mix several integers into one seed
pub fn mix(parts: &[u64]) -> u64 {
    let mut h = 0x243f6a8885a308d3u64;
    for p in parts {
        let mut x = h ^ *p;
        h = splitmix(&mut x);
    }
    h
}

impl Rng {
    pub fn new(seed: u64) -> Self {
        let mut x = seed;
        Rng { s: [splitmix(&mut x), splitmix(&mut x), splitmix(&mut x), splitmix(&mut x)] }
    }
    pub fn next_u64(&mut self) -> u64 {
        let r = self.s[1].wrapping_mul(5).rotate_left(7).wrapping_mul(9);
        let t = self.s[1] << 17;
        self.s[2] ^= self.s[0];
        self.s[3] ^= self.s[1];
        self.s[1] ^= self.s[2];
        self.s[0] ^= self.s[3];
        self.s[2] ^= t;
        self.s[3] = self.s[3].rotate_left(45);
        r
    }
    /// uniform in 0..n (n >= 1)
    pub fn below(&mut self, n: u64) -> u64 {
        if n <= 1 {
            return 0;
        }
        // multiply-shift; bias is negligible for the small n used here
        ((self.next_u64() as u128 * n as u128) >> 64) as u64
    }
    pub fn range(&mut self, lo: i64, hi_incl: i64) -> i64 {
        lo + self.below((hi_incl - lo + 1) as u64) as i64
    }
    pub fn chance(&mut self, permille: u32) -> bool {
        self.below(1000) < permille as u64
    }
    pub fn pick<'a, T>(&mut self, xs: &'a [T]) -> &'a T {
        &xs[self.below(xs.len() as u64) as usize]
    }
    pub fn shuffle<T>(&mut self, xs: &mut [T]) {
        for i in (1..xs.len()).rev() {
            let j = self.below(i as u64 + 1) as usize;
            xs.swap(i, j);
        }
    }
}
