//! Grammar-based generator of workflow models and client tables.
use crate::model::*;
use crate::scenario::*;
use serde_json::{json, Map, Value};
use std::collections::BTreeMap;
use vsim::rng::Rng;

#[derive(Clone, Debug)]
pub struct GenCfg {
    pub max_steps: u32,
    pub max_depth: u32,
    pub max_branches: u32,
    pub max_acts: u32,
    /// per mille
    pub p_branches: u32,
    pub p_step_if: u32,
    pub p_act_if: u32,
    pub p_else: u32,
    pub p_needs: u32,
    pub p_empty_branch: u32,
    /// act kind weights
    pub w_irq: u32,
    pub w_msg: u32,
    pub w_set: u32,
    pub w_code: u32,
    pub w_block: u32,
    pub w_parallel: u32,
    pub w_sequence: u32,
    /// catches on steps/acts (per mille)
    pub p_catch: u32,
    pub p_timeout: u32,
    pub p_hooks: u32,
    /// declared outputs on irq acts
    pub p_act_outputs: u32,
    /// input variables (a, b) and their range
    pub var_max: i64,
    /// let steps without acts/branches appear
    pub p_empty_step: u32,
    /// keep workflow outputs
    pub wf_outputs: bool,
}

impl GenCfg {
    pub fn control() -> GenCfg {
        GenCfg {
            max_steps: 4,
            max_depth: 3,
            max_branches: 3,
            max_acts: 3,
            p_branches: 450,
            p_step_if: 150,
            p_act_if: 150,
            p_else: 500,
            p_needs: 200,
            p_empty_branch: 150,
            w_irq: 5,
            w_msg: 4,
            w_set: 0,
            w_code: 0,
            w_block: 0,
            w_parallel: 0,
            w_sequence: 0,
            p_catch: 0,
            p_timeout: 0,
            p_hooks: 0,
            p_act_outputs: 0,
            var_max: 3,
            p_empty_step: 100,
            wf_outputs: false,
        }
    }
}

pub struct Gen<'a> {
    pub rng: &'a mut Rng,
    pub cfg: GenCfg,
    n_step: u32,
    n_branch: u32,
    n_act: u32,
    pub prefix: String,
    /// error codes usable in catches
    pub ecodes: Vec<String>,
}

impl<'a> Gen<'a> {
    pub fn new(rng: &'a mut Rng, cfg: GenCfg) -> Self {
        Gen { rng, cfg, n_step: 0, n_branch: 0, n_act: 0, prefix: String::new(), ecodes: vec!["e1".into(), "e2".into(), "e3".into()] }
    }

    fn step_id(&mut self) -> String {
        self.n_step += 1;
        format!("{}s{}", self.prefix, self.n_step)
    }
    fn branch_id(&mut self) -> String {
        self.n_branch += 1;
        format!("{}b{}", self.prefix, self.n_branch)
    }
    fn act_n(&mut self) -> u32 {
        self.n_act += 1;
        self.n_act
    }

    pub fn cond(&mut self) -> Cond {
        let vars = ["a", "b"];
        let ops = ["<", "<=", "==", "!=", ">=", ">"];
        let l = match self.rng.below(4) {
            0 => Expr::Add(Box::new(Expr::Var("a".into())), Box::new(Expr::Var("b".into()))),
            _ => Expr::Var(self.rng.pick(&vars).to_string()),
        };
        let r = match self.rng.below(4) {
            0 => Expr::Var(self.rng.pick(&vars).to_string()),
            _ => Expr::Const(self.rng.range(0, self.cfg.var_max + 1)),
        };
        Cond::Cmp(l, self.rng.pick(&ops).to_string(), r)
    }

    fn msg_act(&mut self) -> MAct {
        let n = self.act_n();
        MAct { id: format!("{}a{}", self.prefix, n), kind: ActKind::Msg, key: format!("{}m{}", self.prefix, n), ..Default::default() }
    }

    fn irq_act(&mut self) -> MAct {
        let n = self.act_n();
        let mut a = MAct { id: format!("{}a{}", self.prefix, n), kind: ActKind::Irq, key: format!("{}k{}", self.prefix, n), ..Default::default() };
        if self.rng.chance(self.cfg.p_act_outputs) {
            a.outputs = vec![format!("o{}", n)];
        }
        a
    }

    fn simple_inner_acts(&mut self, max: u32) -> Vec<MAct> {
        let n = 1 + self.rng.below(max as u64) as u32;
        (0..n).map(|_| if self.rng.below(3) == 0 { self.msg_act() } else { self.irq_act() }).collect()
    }

    pub fn act(&mut self, depth: u32) -> MAct {
        let c = self.cfg.clone();
        let total = c.w_irq + c.w_msg + c.w_set + c.w_code + c.w_block + c.w_parallel + c.w_sequence;
        let mut r = self.rng.below(total.max(1) as u64) as u32;
        let mut a = if r < c.w_irq {
            self.irq_act()
        } else {
            r -= c.w_irq;
            if r < c.w_msg {
                self.msg_act()
            } else {
                r -= c.w_msg;
                let n = self.act_n();
                let id = format!("{}a{}", self.prefix, n);
                if r < c.w_set {
                    let mut kv = BTreeMap::new();
                    kv.insert(self.rng.pick(&["a", "b"]).to_string(), json!(self.rng.range(0, c.var_max)));
                    MAct { id, kind: ActKind::Set(kv), ..Default::default() }
                } else {
                    r -= c.w_set;
                    if r < c.w_code {
                        let v = *self.rng.pick(&["a", "b"]);
                        let script = format!("$set(\"{v}\", {v} + 1);");
                        MAct { id, kind: ActKind::Code(script), ..Default::default() }
                    } else {
                        r -= c.w_code;
                        let len = self.rng.below(4);
                        let list: Vec<Value> = (0..len).map(|i| json!(format!("u{}", i))).collect();
                        if r < c.w_block {
                            let sequence = self.rng.below(2) == 0;
                            let acts = self.simple_inner_acts(3);
                            MAct { id, kind: ActKind::Block { sequence, acts }, ..Default::default() }
                        } else {
                            r -= c.w_block;
                            let acts = self.simple_inner_acts(2);
                            if r < c.w_parallel {
                                MAct { id, kind: ActKind::Parallel { list, acts }, ..Default::default() }
                            } else {
                                MAct { id, kind: ActKind::Sequence { list, acts }, ..Default::default() }
                            }
                        }
                    }
                }
            }
        };
        if self.rng.chance(c.p_act_if) {
            a.cond = Some(self.cond());
        }
        if matches!(a.kind, ActKind::Irq) && depth < c.max_depth {
            if self.rng.chance(c.p_catch) {
                a.catches = self.catches(depth + 1);
            }
            if self.rng.chance(c.p_timeout) {
                a.timeouts = self.timeouts(depth + 1);
            }
        }
        a
    }

    fn small_steps(&mut self, depth: u32) -> Vec<MStep> {
        let n = self.rng.below(2) + 1;
        (0..n)
            .map(|_| {
                let id = self.step_id();
                let acts = if self.rng.below(4) == 0 { vec![] } else { vec![if self.rng.below(2) == 0 { self.msg_act() } else { self.irq_act() }] };
                let _ = depth;
                MStep { id, acts, ..Default::default() }
            })
            .collect()
    }

    pub fn catches(&mut self, depth: u32) -> Vec<MCatch> {
        let n = 1 + self.rng.below(2);
        let mut used: Vec<Option<String>> = vec![];
        let mut out = vec![];
        for _ in 0..n {
            let on = if self.rng.below(4) == 0 { None } else { Some(self.rng.pick(&self.ecodes.clone()).clone()) };
            if used.contains(&on) {
                continue;
            }
            used.push(on.clone());
            let steps = if self.rng.below(5) == 0 { vec![] } else { self.small_steps(depth) };
            out.push(MCatch { on, steps });
        }
        out
    }

    pub fn timeouts(&mut self, depth: u32) -> Vec<MTimeout> {
        let n = 1 + self.rng.below(3);
        let mut out: Vec<MTimeout> = vec![];
        let choices = ["2s", "5s", "30s", "1m", "2m", "1h", "1d"];
        for _ in 0..n {
            let on = self.rng.pick(&choices).to_string();
            if out.iter().any(|t| t.on == on) {
                continue;
            }
            out.push(MTimeout { on, steps: self.small_steps(depth) });
        }
        out
    }

    pub fn hooks(&mut self, kinds: &[&str]) -> Vec<MAct> {
        let mut out = vec![];
        for k in kinds {
            if self.rng.below(2) == 0 {
                let mut a = self.msg_act();
                a.key = format!("h_{}_{}", k, a.key);
                a.on = Some(k.to_string());
                out.push(a);
            }
        }
        out
    }

    pub fn step(&mut self, depth: u32) -> MStep {
        let c = self.cfg.clone();
        let id = self.step_id();
        let mut s = MStep { id, ..Default::default() };
        if self.rng.chance(c.p_step_if) {
            s.cond = Some(self.cond());
        }
        if depth < c.max_depth && self.rng.chance(c.p_branches) {
            let nb = 1 + self.rng.below(c.max_branches as u64) as usize;
            let mut has_else = false;
            let mut if_ids: Vec<String> = vec![];
            let mut branches = vec![];
            for _ in 0..nb {
                let bid = self.branch_id();
                let kind = if !has_else && self.rng.chance(c.p_else) && nb > 1 {
                    has_else = true;
                    BranchKind::Else
                } else if !if_ids.is_empty() && self.rng.chance(c.p_needs) {
                    let k = self.rng.pick(&if_ids).clone();
                    BranchKind::Needs(vec![k])
                } else {
                    if_ids.push(bid.clone());
                    BranchKind::If(self.cond())
                };
                let steps = if self.rng.chance(c.p_empty_branch) {
                    vec![]
                } else {
                    let ns = 1 + self.rng.below(2);
                    (0..ns).map(|_| self.step(depth + 1)).collect()
                };
                branches.push(MBranch { id: bid, kind, steps });
            }
            // the declaration order of the branches is a generator dimension
            self.rng.shuffle(&mut branches);
            s.branches = branches;
        } else if !self.rng.chance(c.p_empty_step) {
            let na = 1 + self.rng.below(c.max_acts as u64);
            s.acts = (0..na).map(|_| self.act(depth)).collect();
        }
        if depth < c.max_depth {
            if self.rng.chance(c.p_catch) {
                s.catches = self.catches(depth + 1);
            }
            if self.rng.chance(c.p_timeout) && !s.acts.is_empty() {
                s.timeouts = self.timeouts(depth + 1);
            }
        }
        if self.rng.chance(c.p_hooks) {
            s.setup = self.hooks(&["created", "completed", "before_update", "updated", "step"]);
        }
        s
    }

    pub fn workflow(&mut self, id: &str) -> MWorkflow {
        // a workflow without any step is a legal (and rarely tried) shape
        let ns = if self.rng.below(40) == 0 { 0 } else { 1 + self.rng.below(self.cfg.max_steps as u64) };
        let steps: Vec<MStep> = (0..ns).map(|_| self.step(1)).collect();
        let mut inputs = BTreeMap::new();
        inputs.insert("a".to_string(), json!(0));
        inputs.insert("b".to_string(), json!(0));
        let mut w = MWorkflow { id: id.into(), inputs, steps, ..Default::default() };
        if self.rng.chance(self.cfg.p_hooks) {
            w.setup = self.hooks(&["created", "completed", "before_update", "updated", "step"]);
        }
        if self.cfg.wf_outputs {
            w.outputs.insert("a".into(), None);
            w.outputs.insert("b".into(), None);
        }
        w
    }
}

/// reactions that supply the declared outputs of every irq act (a completer that never fails admission)
pub fn completer_for(models: &[MWorkflow]) -> BTreeMap<String, Vec<Reaction>> {
    let mut out = BTreeMap::new();
    for m in models {
        m.visit_acts(&mut |a| {
            if matches!(a.kind, ActKind::Irq) && !a.outputs.is_empty() {
                let mut o = Map::new();
                for k in &a.outputs {
                    o.insert(k.clone(), json!(1));
                }
                out.insert(a.key.clone(), vec![Reaction { action: "complete".into(), options: o, repeat: 0 }]);
            }
        });
    }
    out
}

pub fn random_knobs(rng: &mut Rng) -> SimKnobs {
    let policy = match rng.below(10) {
        0 => "fifo".to_string(),
        1 => "lifo".to_string(),
        2 => "oldest80".to_string(),
        3 => "pct2".to_string(),
        4 => "pct3".to_string(),
        _ => "random".to_string(),
    };
    SimKnobs { policy, tie_permille: *rng.pick(&[0, 0, 20, 100, 400]), max_delta_us: *rng.pick(&[1, 10, 40, 200, 1500]) }
}

pub fn valuation(rng: &mut Rng, max: i64) -> Map<String, Value> {
    let mut m = Map::new();
    m.insert("a".into(), json!(rng.range(0, max)));
    m.insert("b".into(), json!(rng.range(0, max)));
    m
}
