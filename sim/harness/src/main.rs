mod interpose;
mod model;
mod obs;
mod run;
mod scenario;
mod world;

use model::*;
use scenario::*;

fn demo_model() -> MWorkflow {
    let irq = |k: &str| MAct { key: k.into(), kind: ActKind::Irq, ..Default::default() };
    MWorkflow {
        id: "m".into(),
        inputs: [("v".to_string(), serde_json::json!(0))].into_iter().collect(),
        steps: vec![
            MStep {
                id: "s1".into(),
                branches: vec![
                    MBranch { id: "b1".into(), kind: BranchKind::If(Cond::Cmp(Expr::Var("v".into()), ">".into(), Expr::Const(1))), steps: vec![MStep { id: "sb1".into(), acts: vec![irq("k1")], ..Default::default() }] },
                    MBranch { id: "b2".into(), kind: BranchKind::Else, steps: vec![MStep { id: "sb2".into(), acts: vec![irq("k2")], ..Default::default() }] },
                ],
                ..Default::default()
            },
            MStep { id: "s_end".into(), ..Default::default() },
        ],
        ..Default::default()
    }
}

fn main() {
    run::install_panic_hook();
    world::install_state_hook();
    let args: Vec<String> = std::env::args().collect();
    let n: u64 = args.get(1).and_then(|s| s.parse().ok()).unwrap_or(5);
    let mut sc = Scenario::default();
    sc.models.push(demo_model());
    sc.starts.push(Start { model: "m".into(), vars: serde_json::Map::new(), pid: Some("p1".into()), at_q: 0 });
    sc.engine.keep_processes = true;
    sc.capture = true;
    let t0 = std::time::Instant::now();
    let mut unfinished = 0;
    for seed in 0..n {
        let r = run::run(&sc, run::RunOpts { seed, decisions: None, strict: false, keep_log: n <= 2 });
        let r2 = run::run(&sc, run::RunOpts { seed, decisions: None, strict: false, keep_log: false });
        assert_eq!(r.log_hash, r2.log_hash, "nondeterminism seed {seed}");
        let fin = r.msgs.iter().any(|m| m.via == "complete" || m.via == "error");
        if !fin { unfinished += 1; }
        if n <= 2 {
            for l in &r.log_lines { println!("{l}"); }
            println!("panics={:?} steps={} finished={} counters={:?}", r.panics, r.steps, fin, r.counters);
        }
    }
    println!("{} runs x2 in {:?}, unfinished {}", n, t0.elapsed(), unfinished);
    world::cleanup_scratch();
}
