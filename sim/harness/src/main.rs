//! acts-sim — deterministic simulation harness for the acts workflow engine.
mod checks;
mod gen;
mod imgx;
mod interpose;
mod layer2;
mod model;
mod obs;
mod props;
mod refflow;
mod run;
mod scenario;
mod shrink;
mod world;

use checks::*;
use serde_json::{json, Value};
use std::collections::{BTreeMap, BTreeSet};
use std::time::Instant;

fn arg<'a>(args: &'a [String], name: &str) -> Option<&'a str> {
    args.iter().position(|a| a == name).and_then(|i| args.get(i + 1)).map(|s| s.as_str())
}

fn flag(args: &[String], name: &str) -> bool {
    args.iter().any(|a| a == name)
}

pub fn case_seed(base: u64, check: &str, index: u64) -> u64 {
    vsim::rng::mix(&[base, vsim::hash_str(check), index])
}

fn replay_value(def: &CheckDef, tier: &str, cs: u64, r: &shrink::Repro, extra: Value) -> Value {
    json!({
        "property": r.violation.property,
        "check": def.id,
        "tier": tier,
        "case_seed": cs,
        "scenario": r.scenario,
        "decisions": r.decisions,
        "expect": {"kind": r.violation.kind, "signature": r.violation.signature, "class": r.violation.class()},
        "detail": r.violation.detail,
        "log_hashes": r.log_hashes,
        "info": extra,
    })
}

fn worker(args: &[String]) -> i32 {
    let id = arg(args, "--check").expect("--check");
    let tier = arg(args, "--tier").unwrap_or("quick").to_string();
    let base: u64 = arg(args, "--seed").and_then(|s| s.parse().ok()).unwrap_or(1);
    let from: u64 = arg(args, "--from").and_then(|s| s.parse().ok()).unwrap_or(0);
    let stride: u64 = arg(args, "--stride").and_then(|s| s.parse().ok()).unwrap_or(1);
    let count: u64 = arg(args, "--count").and_then(|s| s.parse().ok()).unwrap_or(100);
    let budget: f64 = arg(args, "--budget-s").and_then(|s| s.parse().ok()).unwrap_or(30.0);
    let out_path = arg(args, "--out").expect("--out");
    let det_every: u64 = arg(args, "--det-every").and_then(|s| s.parse().ok()).unwrap_or(40);
    // determinism campaign (tools/determinism.py): one line per case with everything a run produces
    let mut hashes_out = arg(args, "--hashes").map(|p| std::io::BufWriter::new(std::fs::File::create(p).expect("--hashes file")));
    let Some(def) = find(id) else {
        eprintln!("unknown check {id}");
        return 2;
    };
    let t0 = Instant::now();
    let mut cases = 0u64;
    let mut runs = 0u64;
    let mut nontrivial = 0u64;
    let mut keys: BTreeSet<u64> = BTreeSet::new();
    let mut shapes: BTreeSet<u64> = BTreeSet::new();
    let mut scheds: BTreeSet<u64> = BTreeSet::new();
    let mut outcomes: BTreeSet<u64> = BTreeSet::new();
    let mut counters: BTreeMap<String, u64> = BTreeMap::new();
    let mut sim_time_us: i64 = 0;
    let mut steps = 0u64;
    let mut vio: Vec<Value> = vec![];
    let mut classes: BTreeMap<String, u64> = BTreeMap::new();
    let mut samples: Vec<Value> = vec![];
    let mut discarded: BTreeMap<String, u64> = BTreeMap::new();
    let mut nondet: Vec<Value> = vec![];
    let mut panics: Vec<Value> = vec![];
    let mut det_checked = 0u64;
    let mut k = 0u64;
    // every run leaves its engine behind (the engine's runtime holds itself through its own callbacks), so a worker
    // process grows; it stops at the limit and the driver continues the slot in a fresh process
    let rss_limit_kb: u64 = arg(args, "--rss-limit-mb").and_then(|s| s.parse::<u64>().ok()).unwrap_or(0) * 1024;
    let mut stopped_early = false;
    while k < count {
        if t0.elapsed().as_secs_f64() > budget {
            break;
        }
        if rss_limit_kb > 0 && k % 8 == 0 && k > 0 {
            let rss_kb = std::fs::read_to_string("/proc/self/statm").ok().and_then(|t| t.split_whitespace().nth(1).and_then(|x| x.parse::<u64>().ok())).map(|pages| pages * 4).unwrap_or(0);
            // engines on the SQLite store also leave the threads of their connection pool behind
            let threads = std::fs::read_to_string("/proc/self/status").ok().and_then(|t| t.lines().find(|l| l.starts_with("Threads:")).and_then(|l| l.split_whitespace().nth(1).and_then(|x| x.parse::<u64>().ok()))).unwrap_or(0);
            if rss_kb > rss_limit_kb || threads > 1500 {
                stopped_early = true;
                break;
            }
        }
        let index = from + k * stride;
        k += 1;
        let cs = case_seed(base, id, index);
        let mut ctx = CaseCtx::new(id, &tier, cs);
        let out = (def.case)(&mut ctx);
        cases += 1;
        if let Some(w) = hashes_out.as_mut() {
            use std::io::Write;
            let vs: Vec<String> = out.violations.iter().map(|v| v.class()).collect();
            let _ = writeln!(w, "{} {:x} {:x} {:x} {} {} {:?}", index, vsim::rng::mix(&ctx.log_hashes), out.outcome_hash, ctx.sched_hash, ctx.runs, ctx.steps, vs);
        }
        runs += ctx.runs;
        sim_time_us += ctx.sim_time_us;
        steps += ctx.steps;
        for (k, v) in &ctx.counters {
            if k == "sim.max_ready" {
                let e = counters.entry(k.clone()).or_default();
                *e = (*e).max(*v);
            } else {
                *counters.entry(k.clone()).or_default() += v;
            }
        }
        for p in &ctx.panics {
            if panics.len() < 5 {
                panics.push(json!({"case_index": index, "panic": p}));
            }
        }
        if let Some(d) = &out.discarded {
            let short: String = d.chars().take(80).collect();
            *discarded.entry(short).or_default() += 1;
            continue;
        }
        let (shape, fault) = out.scenario.as_ref().map(|s| (s.shape_hash(), s.fault_hash())).unwrap_or((0, 0));
        shapes.insert(shape);
        scheds.insert(ctx.sched_hash);
        outcomes.insert(out.outcome_hash);
        if out.nontrivial {
            nontrivial += 1;
            keys.insert(out.distinct_key.unwrap_or_else(|| vsim::rng::mix(&[shape, ctx.sched_hash, fault])));
            if samples.len() < 3 {
                samples.push(json!({"case_index": index, "case_seed": cs, "case": out.sample}));
            }
        }
        for v in &out.violations {
            let c = v.class();
            let n = classes.entry(c.clone()).or_default();
            *n += 1;
            if *n <= 2 {
                let r = shrink::Repro { scenario: out.scenario.clone().unwrap_or_default(), decisions: ctx.decisions.clone(), violation: v.clone(), log_hashes: ctx.log_hashes.clone() };
                vio.push(replay_value(&def, &tier, cs, &r, json!({"case_index": index, "base_seed": base})));
            }
        }
        // determinism self-check: the same case again must give the same event-log hashes
        if det_every > 0 && index % det_every == 0 {
            let mut ctx2 = CaseCtx::new(id, &tier, cs);
            let _ = (def.case)(&mut ctx2);
            det_checked += 1;
            if ctx2.log_hashes != ctx.log_hashes {
                nondet.push(json!({"case_index": index, "case_seed": cs, "a": ctx.log_hashes, "b": ctx2.log_hashes}));
            }
        }
    }
    let res = json!({
        "check": id, "tier": tier, "base_seed": base, "from": from, "stride": stride,
        "cases": cases, "runs": runs, "nontrivial": nontrivial, "indices_done": k, "stopped_at_rss_limit": stopped_early,
        "keys": keys.iter().collect::<Vec<_>>(),
        "shapes": shapes.iter().collect::<Vec<_>>(),
        "scheds": scheds.iter().collect::<Vec<_>>(),
        "outcomes": outcomes.iter().collect::<Vec<_>>(),
        "counters": counters, "sim_time_us": sim_time_us, "steps": steps,
        "wall_s": t0.elapsed().as_secs_f64(),
        "violations": vio, "violation_classes": classes,
        "samples": samples, "discarded": discarded,
        "nondeterminism": nondet, "det_checked": det_checked, "panics": panics,
        "rule": def.rule, "level": def.level, "assumptions": def.assumptions, "probes": def.probes, "title": def.title,
    });
    std::fs::write(out_path, serde_json::to_string(&res).unwrap()).expect("write out");
    0
}

fn load_replay(path: &str) -> Result<(CheckDef, String, u64, scenario::Scenario, Vec<Vec<(u16, u32, u32)>>, String, Vec<u64>), String> {
    let text = std::fs::read_to_string(path).map_err(|e| format!("{path}: {e}"))?;
    let v: Value = serde_json::from_str(&text).map_err(|e| format!("{path}: {e}"))?;
    let id = v["check"].as_str().ok_or("no check")?;
    let def = find(id).ok_or(format!("unknown check {id}"))?;
    let tier = v["tier"].as_str().unwrap_or("quick").to_string();
    let cs = v["case_seed"].as_u64().ok_or("no case_seed")?;
    let sc: scenario::Scenario = serde_json::from_value(v["scenario"].clone()).map_err(|e| format!("scenario: {e}"))?;
    let dec: Vec<Vec<(u16, u32, u32)>> = serde_json::from_value(v["decisions"].clone()).map_err(|e| format!("decisions: {e}"))?;
    let class = v["expect"]["class"].as_str().unwrap_or("").to_string();
    let hashes: Vec<u64> = serde_json::from_value(v["log_hashes"].clone()).unwrap_or_default();
    Ok((def, tier, cs, sc, dec, class, hashes))
}

/// exit 1: the recorded violation reproduced exactly; 0: no violation; 2: replay diverged / harness error
fn replay(args: &[String]) -> i32 {
    let path = args.iter().skip(2).find(|a| !a.starts_with("--")).expect("replay <file>");
    let (def, tier, cs, sc, dec, class, hashes) = match load_replay(path) {
        Ok(x) => x,
        Err(e) => {
            eprintln!("replay: {e}");
            return 2;
        }
    };
    // a replay file can ask for lenient replay itself (witness of a repaired defect that fails again on a
    // changed tree: its recorded decisions belong to another tree)
    let file_lenient = std::fs::read_to_string(path).ok().and_then(|t| serde_json::from_str::<Value>(&t).ok()).map(|v| v["replay_mode"] == "lenient").unwrap_or(false);
    let lenient = flag(args, "--lenient") || file_lenient;
    let fresh = flag(args, "--fresh-decisions");
    let mut ctx = CaseCtx::new(def.id, &tier, cs);
    ctx.scenario_override = Some(sc);
    ctx.decisions_override = if fresh { None } else { Some(dec) };
    ctx.strict = !lenient && !fresh;
    ctx.keep_log = flag(args, "--log");
    let out = (def.case)(&mut ctx);
    if ctx.keep_log {
        for (i, l) in ctx.logs.iter().enumerate() {
            println!("---- run {i}");
            for line in l {
                println!("{line}");
            }
        }
    }
    if ctx.strict {
        if let Some(d) = &ctx.diverged {
            println!("REPLAY-DIVERGED {d}");
            return 2;
        }
    }
    for v in &out.violations {
        println!("violation property={} kind={} signature={} :: {}", v.property, v.kind, v.signature, v.detail);
    }
    println!("RESULT {}", json!({"violations": out.violations.iter().map(|v| json!({"property": v.property, "kind": v.kind, "signature": v.signature, "class": v.class(), "detail": v.detail})).collect::<Vec<_>>()}));
    let same = out.violations.iter().any(|v| v.class() == class);
    if same {
        if ctx.strict && !hashes.is_empty() && hashes != ctx.log_hashes {
            println!("REPLAY-DIVERGED event log hash differs from the recorded one");
            return 2;
        }
        println!("REPRODUCED class={class}");
        return 1;
    }
    if !out.violations.is_empty() {
        println!("DIFFERENT-VIOLATION (expected class {class})");
        return 1;
    }
    println!("NOT-REPRODUCED (expected class {class})");
    0
}

fn shrink_cmd(args: &[String]) -> i32 {
    let inp = arg(args, "--in").expect("--in");
    let outp = arg(args, "--out").expect("--out");
    let budget: f64 = arg(args, "--budget-s").and_then(|s| s.parse().ok()).unwrap_or(20.0);
    let (def, tier, cs, sc, dec, class, _) = match load_replay(inp) {
        Ok(x) => x,
        Err(e) => {
            eprintln!("shrink: {e}");
            return 2;
        }
    };
    // the starting point must reproduce (strictly)
    let Some(start) = shrink::try_case(&def, &tier, cs, &sc, Some(dec), true, &class) else {
        eprintln!("shrink: the input does not reproduce class {class}");
        return 2;
    };
    let n0: usize = start.decisions.iter().map(|d| d.len()).sum();
    let size0 = serde_json::to_string(&start.scenario).unwrap().len();
    let (best, tried, kept) = shrink::shrink(&def, &tier, cs, start, budget);
    let n1: usize = best.decisions.iter().map(|d| d.len()).sum();
    let nz1: usize = best.decisions.iter().map(|d| d.iter().filter(|x| x.2 != 0).count()).sum();
    let size1 = serde_json::to_string(&best.scenario).unwrap().len();
    let v = replay_value(&def, &tier, cs, &best, json!({"shrink": {"candidates_tried": tried, "kept": kept, "scenario_bytes": [size0, size1], "decisions": [n0, n1], "nonzero_decisions": nz1}}));
    std::fs::write(outp, serde_json::to_string_pretty(&v).unwrap()).expect("write");
    println!("shrunk: scenario {size0}->{size1} bytes, decisions {n0}->{n1} ({nz1} non-default), {tried} candidates");
    0
}

fn dump(args: &[String]) -> i32 {
    let id = arg(args, "--check").expect("--check");
    let base: u64 = arg(args, "--seed").and_then(|s| s.parse().ok()).unwrap_or(1);
    let index: u64 = arg(args, "--index").and_then(|s| s.parse().ok()).unwrap_or(0);
    let def = find(id).expect("check");
    let cs = case_seed(base, id, index);
    let mut ctx = CaseCtx::new(id, "quick", cs);
    ctx.keep_log = true;
    let out = (def.case)(&mut ctx);
    if let Some(sc) = &out.scenario {
        for m in &sc.models {
            println!("{}", model::to_yaml(m));
        }
        let mut s2 = sc.clone();
        s2.models.clear();
        println!("{}", serde_json::to_string(&s2).unwrap());
    }
    for (i, l) in ctx.logs.iter().enumerate() {
        println!("---- run {i}");
        for line in l {
            println!("{line}");
        }
    }
    println!("nontrivial={} discarded={:?} counters={:?}", out.nontrivial, out.discarded, ctx.counters);
    for v in &out.violations {
        println!("VIOLATION {} {} {} :: {}", v.property, v.kind, v.signature, v.detail);
    }
    0
}

fn main() {
    run::install_panic_hook();
    world::install_state_hook();
    layer2::install_sync_hooks();
    let args: Vec<String> = std::env::args().collect();
    let code = match args.get(1).map(|s| s.as_str()) {
        Some("worker") => worker(&args),
        Some("replay") => replay(&args),
        Some("shrink") => shrink_cmd(&args),
        Some("dump") => dump(&args),
        Some("quick-cases") => match args.get(2).and_then(|id| find(id)) {
            Some(c) => {
                println!("{}", c.quick_cases);
                0
            }
            None => 2,
        },
        Some("list") => {
            for c in registry() {
                println!("{} {}", c.id, c.title);
            }
            0
        }
        _ => {
            eprintln!("usage: acts-sim worker|replay|shrink|dump|list ...");
            2
        }
    };
    world::cleanup_scratch();
    std::process::exit(code);
}
