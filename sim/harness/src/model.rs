//! The harness's own model AST (independent of the engine's types), its rendering to the YAML the
//! engine deploys, and a native evaluator for the condition fragment.
use serde::{Deserialize, Serialize};
use serde_json::{json, Map, Value};
use std::collections::BTreeMap;

#[derive(Clone, Debug, Serialize, Deserialize, PartialEq)]
pub enum Expr {
    Var(String),
    Const(i64),
    Add(Box<Expr>, Box<Expr>),
}

#[derive(Clone, Debug, Serialize, Deserialize, PartialEq)]
pub enum Cond {
    True,
    False,
    Cmp(Expr, String, Expr),
}

impl Expr {
    pub fn js(&self) -> String {
        match self {
            Expr::Var(v) => v.clone(),
            Expr::Const(c) => c.to_string(),
            Expr::Add(a, b) => format!("{} + {}", a.js(), b.js()),
        }
    }
    pub fn eval(&self, env: &dyn Fn(&str) -> Option<i64>) -> Option<i64> {
        match self {
            Expr::Var(v) => env(v),
            Expr::Const(c) => Some(*c),
            Expr::Add(a, b) => Some(a.eval(env)? + b.eval(env)?),
        }
    }
    pub fn vars(&self, out: &mut Vec<String>) {
        match self {
            Expr::Var(v) => out.push(v.clone()),
            Expr::Const(_) => {}
            Expr::Add(a, b) => {
                a.vars(out);
                b.vars(out)
            }
        }
    }
}

impl Cond {
    pub fn js(&self) -> String {
        match self {
            Cond::True => "true".into(),
            Cond::False => "false".into(),
            Cond::Cmp(l, op, r) => format!("{} {} {}", l.js(), op, r.js()),
        }
    }
    /// None when a variable is unknown to the evaluator
    pub fn eval(&self, env: &dyn Fn(&str) -> Option<i64>) -> Option<bool> {
        match self {
            Cond::True => Some(true),
            Cond::False => Some(false),
            Cond::Cmp(l, op, r) => {
                let a = l.eval(env)?;
                let b = r.eval(env)?;
                Some(match op.as_str() {
                    "<" => a < b,
                    "<=" => a <= b,
                    "==" => a == b,
                    "!=" => a != b,
                    ">=" => a >= b,
                    ">" => a > b,
                    _ => return None,
                })
            }
        }
    }
}

#[derive(Clone, Debug, Serialize, Deserialize, PartialEq)]
pub enum ActKind {
    Irq,
    Msg,
    /// acts.transform.set { k: v }
    Set(BTreeMap<String, Value>),
    /// acts.transform.code script
    Code(String),
    /// acts.core.block
    Block { sequence: bool, acts: Vec<MAct> },
    /// acts.core.parallel
    Parallel { list: Vec<Value>, acts: Vec<MAct> },
    /// acts.core.sequence
    Sequence { list: Vec<Value>, acts: Vec<MAct> },
    /// acts.core.subflow
    Subflow { to: String, options: BTreeMap<String, Value> },
    /// acts.core.action
    Action { action: String, options: BTreeMap<String, Value> },
    /// an act with arbitrary `uses`/`params` (e.g. an unknown package)
    Raw { uses: String, params: Value },
}

#[derive(Clone, Debug, Serialize, Deserialize, PartialEq, Default)]
pub struct MCatch {
    pub on: Option<String>,
    pub steps: Vec<MStep>,
}

#[derive(Clone, Debug, Serialize, Deserialize, PartialEq, Default)]
pub struct MTimeout {
    pub on: String,
    pub steps: Vec<MStep>,
}

#[derive(Clone, Debug, Serialize, Deserialize, PartialEq)]
pub struct MAct {
    pub id: String,
    pub kind: ActKind,
    pub key: String,
    pub cond: Option<Cond>,
    pub outputs: Vec<String>,
    pub params: Value,
    pub inputs: BTreeMap<String, Value>,
    pub catches: Vec<MCatch>,
    pub timeouts: Vec<MTimeout>,
    pub setup: Vec<MAct>,
    /// lifecycle hook binding when the act is used inside a `setup` list
    pub on: Option<String>,
    pub tag: String,
}

impl Default for MAct {
    fn default() -> Self {
        MAct {
            id: String::new(),
            kind: ActKind::Irq,
            key: String::new(),
            cond: None,
            outputs: vec![],
            params: Value::Null,
            inputs: BTreeMap::new(),
            catches: vec![],
            timeouts: vec![],
            setup: vec![],
            on: None,
            tag: String::new(),
        }
    }
}

#[derive(Clone, Debug, Serialize, Deserialize, PartialEq)]
pub enum BranchKind {
    If(Cond),
    Else,
    Needs(Vec<String>),
}

#[derive(Clone, Debug, Serialize, Deserialize, PartialEq)]
pub struct MBranch {
    pub id: String,
    pub kind: BranchKind,
    pub steps: Vec<MStep>,
}

#[derive(Clone, Debug, Serialize, Deserialize, PartialEq, Default)]
pub struct MStep {
    pub id: String,
    pub cond: Option<Cond>,
    pub acts: Vec<MAct>,
    pub branches: Vec<MBranch>,
    pub catches: Vec<MCatch>,
    pub timeouts: Vec<MTimeout>,
    pub setup: Vec<MAct>,
    pub next: Option<String>,
    pub inputs: BTreeMap<String, Value>,
    pub outputs: Vec<String>,
    pub tag: String,
}

#[derive(Clone, Debug, Serialize, Deserialize, PartialEq, Default)]
pub struct MWorkflow {
    pub id: String,
    pub name: String,
    pub tag: String,
    pub inputs: BTreeMap<String, Value>,
    /// declared outputs: name -> optional `{{ expr }}` text
    pub outputs: BTreeMap<String, Option<String>>,
    pub env: BTreeMap<String, Value>,
    pub setup: Vec<MAct>,
    pub steps: Vec<MStep>,
    /// start events (`on:` entries, acts.event.manual)
    #[serde(default)]
    pub on: Vec<String>,
    /// ids of steps / branches / acts that are written **without** an `id` in the YAML (the engine gives
    /// them a generated one); they carry `name: ~<id>` instead, from which the observations map the
    /// generated id back (`canon_nid`), so that oracles keep talking about the model's ids
    #[serde(default, skip_serializing_if = "Vec::is_empty")]
    pub anon: Vec<String>,
}

thread_local! {
    static ANON: std::cell::RefCell<Vec<String>> = const { std::cell::RefCell::new(Vec::new()) };
}

fn is_anon(id: &str) -> bool {
    ANON.with(|a| a.borrow().iter().any(|x| x == id))
}

fn put_id(m: &mut Map<String, Value>, id: &str) {
    if id.is_empty() {
        return;
    }
    if is_anon(id) {
        put(m, "name", json!(format!("~{}", id)));
    } else {
        put(m, "id", json!(id));
    }
}

/// the model's id of the node an observation is about: anonymous nodes are recognised by their name
pub fn canon_nid(nid: &str, name: &str) -> String {
    match name.strip_prefix('~') {
        Some(id) if !id.is_empty() => id.to_string(),
        _ => nid.to_string(),
    }
}

fn put(m: &mut Map<String, Value>, k: &str, v: Value) {
    m.insert(k.to_string(), v);
}

fn render_catches(cs: &[MCatch]) -> Value {
    Value::Array(
        cs.iter()
            .map(|c| {
                let mut m = Map::new();
                if let Some(on) = &c.on {
                    put(&mut m, "on", json!(on));
                }
                put(&mut m, "steps", Value::Array(c.steps.iter().map(render_step).collect()));
                Value::Object(m)
            })
            .collect(),
    )
}

fn render_timeouts(ts: &[MTimeout]) -> Value {
    Value::Array(
        ts.iter()
            .map(|t| json!({"on": t.on, "steps": Value::Array(t.steps.iter().map(render_step).collect())}))
            .collect(),
    )
}

pub fn render_act(a: &MAct) -> Value {
    let mut m = Map::new();
    put_id(&mut m, &a.id);
    let (uses, params): (String, Value) = match &a.kind {
        ActKind::Irq => ("acts.core.irq".into(), a.params.clone()),
        ActKind::Msg => ("acts.core.msg".into(), a.params.clone()),
        ActKind::Set(kv) => ("acts.transform.set".into(), json!(kv)),
        ActKind::Code(s) => ("acts.transform.code".into(), json!(s)),
        ActKind::Block { sequence, acts } => (
            "acts.core.block".into(),
            json!({"mode": if *sequence {"sequence"} else {"parallel"}, "acts": acts.iter().map(render_act).collect::<Vec<_>>()}),
        ),
        ActKind::Parallel { list, acts } => {
            ("acts.core.parallel".into(), json!({"in": list, "acts": acts.iter().map(render_act).collect::<Vec<_>>()}))
        }
        ActKind::Sequence { list, acts } => {
            ("acts.core.sequence".into(), json!({"in": list, "acts": acts.iter().map(render_act).collect::<Vec<_>>()}))
        }
        ActKind::Subflow { to, options } => ("acts.core.subflow".into(), json!({"to": to, "options": options})),
        ActKind::Action { action, options } => ("acts.core.action".into(), json!({"action": action, "options": options})),
        ActKind::Raw { uses, params } => (uses.clone(), params.clone()),
    };
    put(&mut m, "uses", json!(uses));
    if !a.key.is_empty() {
        put(&mut m, "key", json!(a.key));
    }
    if !a.tag.is_empty() {
        put(&mut m, "tag", json!(a.tag));
    }
    if let Some(c) = &a.cond {
        put(&mut m, "if", json!(c.js()));
    }
    if let Some(on) = &a.on {
        put(&mut m, "on", json!(on));
    }
    if !params.is_null() {
        put(&mut m, "params", params);
    }
    if !a.inputs.is_empty() {
        put(&mut m, "inputs", json!(a.inputs));
    }
    if !a.outputs.is_empty() {
        let mut o = Map::new();
        for k in &a.outputs {
            o.insert(k.clone(), Value::Null);
        }
        put(&mut m, "outputs", Value::Object(o));
    }
    if !a.catches.is_empty() {
        put(&mut m, "catches", render_catches(&a.catches));
    }
    if !a.timeouts.is_empty() {
        put(&mut m, "timeout", render_timeouts(&a.timeouts));
    }
    if !a.setup.is_empty() {
        put(&mut m, "setup", Value::Array(a.setup.iter().map(render_act).collect()));
    }
    Value::Object(m)
}

pub fn render_branch(b: &MBranch) -> Value {
    let mut m = Map::new();
    put_id(&mut m, &b.id);
    match &b.kind {
        BranchKind::If(c) => put(&mut m, "if", json!(c.js())),
        BranchKind::Else => put(&mut m, "else", json!(true)),
        BranchKind::Needs(n) => put(&mut m, "needs", json!(n)),
    }
    if !b.steps.is_empty() {
        put(&mut m, "steps", Value::Array(b.steps.iter().map(render_step).collect()));
    }
    Value::Object(m)
}

pub fn render_step(s: &MStep) -> Value {
    let mut m = Map::new();
    put_id(&mut m, &s.id);
    if !s.tag.is_empty() {
        put(&mut m, "tag", json!(s.tag));
    }
    if let Some(c) = &s.cond {
        put(&mut m, "if", json!(c.js()));
    }
    if !s.inputs.is_empty() {
        put(&mut m, "inputs", json!(s.inputs));
    }
    if !s.outputs.is_empty() {
        let mut o = Map::new();
        for k in &s.outputs {
            o.insert(k.clone(), Value::Null);
        }
        put(&mut m, "outputs", Value::Object(o));
    }
    if !s.setup.is_empty() {
        put(&mut m, "setup", Value::Array(s.setup.iter().map(render_act).collect()));
    }
    if !s.acts.is_empty() {
        put(&mut m, "acts", Value::Array(s.acts.iter().map(render_act).collect()));
    }
    if !s.branches.is_empty() {
        put(&mut m, "branches", Value::Array(s.branches.iter().map(render_branch).collect()));
    }
    if !s.catches.is_empty() {
        put(&mut m, "catches", render_catches(&s.catches));
    }
    if !s.timeouts.is_empty() {
        put(&mut m, "timeout", render_timeouts(&s.timeouts));
    }
    if let Some(n) = &s.next {
        put(&mut m, "next", json!(n));
    }
    Value::Object(m)
}

pub fn render_workflow(w: &MWorkflow) -> Value {
    ANON.with(|a| *a.borrow_mut() = w.anon.clone());
    let v = render_workflow_inner(w);
    ANON.with(|a| a.borrow_mut().clear());
    v
}

fn render_workflow_inner(w: &MWorkflow) -> Value {
    let mut m = Map::new();
    put(&mut m, "id", json!(w.id));
    if !w.name.is_empty() {
        put(&mut m, "name", json!(w.name));
    }
    if !w.tag.is_empty() {
        put(&mut m, "tag", json!(w.tag));
    }
    if !w.inputs.is_empty() {
        put(&mut m, "inputs", json!(w.inputs));
    }
    if !w.outputs.is_empty() {
        let mut o = Map::new();
        for (k, v) in &w.outputs {
            o.insert(k.clone(), v.as_ref().map(|s| json!(s)).unwrap_or(Value::Null));
        }
        put(&mut m, "outputs", Value::Object(o));
    }
    if !w.env.is_empty() {
        put(&mut m, "env", json!(w.env));
    }
    if !w.setup.is_empty() {
        put(&mut m, "setup", Value::Array(w.setup.iter().map(render_act).collect()));
    }
    if !w.on.is_empty() {
        put(&mut m, "on", Value::Array(w.on.iter().map(|id| json!({"id": id, "uses": "acts.event.manual"})).collect()));
    }
    put(&mut m, "steps", Value::Array(w.steps.iter().map(render_step).collect()));
    Value::Object(m)
}

pub fn to_yaml(w: &MWorkflow) -> String {
    serde_yaml::to_string(&render_workflow(w)).expect("yaml")
}

// -------------------------------------------------------------------------------------------
// traversal helpers

impl MWorkflow {
    pub fn visit_steps<'a>(&'a self, f: &mut dyn FnMut(&'a MStep)) {
        fn act<'a>(a: &'a MAct, f: &mut dyn FnMut(&'a MStep)) {
            for c in &a.catches {
                for s in &c.steps {
                    step(s, f)
                }
            }
            for t in &a.timeouts {
                for s in &t.steps {
                    step(s, f)
                }
            }
        }
        fn step<'a>(s: &'a MStep, f: &mut dyn FnMut(&'a MStep)) {
            f(s);
            for a in &s.acts {
                act(a, f)
            }
            for b in &s.branches {
                for s2 in &b.steps {
                    step(s2, f)
                }
            }
            for c in &s.catches {
                for s2 in &c.steps {
                    step(s2, f)
                }
            }
            for t in &s.timeouts {
                for s2 in &t.steps {
                    step(s2, f)
                }
            }
        }
        for s in &self.steps {
            step(s, f)
        }
    }

    pub fn visit_acts<'a>(&'a self, f: &mut dyn FnMut(&'a MAct)) {
        fn inner<'a>(a: &'a MAct, f: &mut dyn FnMut(&'a MAct)) {
            f(a);
            match &a.kind {
                ActKind::Block { acts, .. } | ActKind::Parallel { acts, .. } | ActKind::Sequence { acts, .. } => {
                    for x in acts {
                        inner(x, f)
                    }
                }
                _ => {}
            }
            for x in &a.setup {
                inner(x, f)
            }
        }
        let mut steps = Vec::new();
        self.visit_steps(&mut |s| steps.push(s));
        for a in &self.setup {
            inner(a, f)
        }
        for s in steps {
            for a in &s.setup {
                inner(a, f)
            }
            for a in &s.acts {
                inner(a, f)
            }
        }
    }

    pub fn node_count(&self) -> usize {
        let mut n = 1;
        self.visit_steps(&mut |s| n += 1 + s.branches.len());
        self.visit_acts(&mut |_| n += 1);
        n
    }
}

/// choose nodes to be written without an id: acts directly in a step's act list, branches that no
/// `needs` names, and (unless `keep_step_ids`: the client goes `back` to steps by id) steps that no `next` names
pub fn anonymise(w: &mut MWorkflow, rng: &mut vsim::rng::Rng, permille: u64, keep_step_ids: bool) {
    let mut referenced: Vec<String> = vec![];
    let mut cands: Vec<String> = vec![];
    w.visit_steps(&mut |s| {
        if let Some(n) = &s.next {
            referenced.push(n.clone());
        }
        for b in &s.branches {
            if let BranchKind::Needs(n) = &b.kind {
                referenced.extend(n.iter().cloned());
            }
            cands.push(b.id.clone());
        }
        if !keep_step_ids {
            cands.push(s.id.clone());
        }
        for a in &s.acts {
            if !a.id.is_empty() {
                cands.push(a.id.clone());
            }
        }
    });
    let mut anon = vec![];
    for c in cands {
        if !referenced.contains(&c) && rng.below(1000) < permille {
            anon.push(c);
        }
    }
    w.anon = anon;
}

/// structural validity the generator guarantees and the shrinker must preserve: a needs-branch
/// names existing sibling branches, `next` names an existing step, ids are unique
pub fn valid_model(w: &MWorkflow, all_models: &[String]) -> bool {
    let mut ok = true;
    let mut step_ids = Vec::new();
    w.visit_steps(&mut |s| step_ids.push(s.id.clone()));
    let mut ids: Vec<String> = step_ids.clone();
    w.visit_steps(&mut |s| {
        let sibs: Vec<&String> = s.branches.iter().map(|b| &b.id).collect();
        for b in &s.branches {
            ids.push(b.id.clone());
            if let BranchKind::Needs(n) = &b.kind {
                if n.is_empty() || n.iter().any(|x| !sibs.contains(&x) || x == &b.id) {
                    ok = false;
                }
                // the needed sibling must not itself be a needs/else branch chain that can never run
            }
        }
        if s.branches.iter().filter(|b| matches!(b.kind, BranchKind::Else)).count() > 1 {
            ok = false;
        }
        if let Some(n) = &s.next {
            if !step_ids.contains(n) {
                ok = false;
            }
            // a backward jump must stay a terminating loop: the counting act of the target step and the guard of
            // the jump (a branch `c < K`) are kept by the shrinker
            if n == "linc" {
                let counts = w.steps.iter().any(|x| x.id == "linc" && x.acts.iter().any(|a| matches!(&a.kind, ActKind::Code(c) if c.contains("c + 1"))));
                let guarded = w.steps.iter().any(|x| x.id == "ljmp" && x.branches.iter().any(|b| b.id == "lb" && matches!(&b.kind, BranchKind::If(Cond::Cmp(Expr::Var(v), op, Expr::Const(_))) if v == "c" && op == "<")));
                if !counts || !guarded {
                    ok = false;
                }
            }
        }
        // catches / timeout rules of one task have distinct keys
        let mut on: Vec<&Option<String>> = s.catches.iter().map(|c| &c.on).collect();
        on.sort();
        on.dedup();
        let mut t: Vec<&String> = s.timeouts.iter().map(|c| &c.on).collect();
        t.sort();
        t.dedup();
        if on.len() != s.catches.len() || t.len() != s.timeouts.len() {
            ok = false;
        }
    });
    w.visit_acts(&mut |a| {
        let mut on: Vec<&Option<String>> = a.catches.iter().map(|c| &c.on).collect();
        on.sort();
        on.dedup();
        let mut t: Vec<&String> = a.timeouts.iter().map(|c| &c.on).collect();
        t.sort();
        t.dedup();
        if on.len() != a.catches.len() || t.len() != a.timeouts.len() {
            ok = false;
        }
    });
    w.visit_acts(&mut |a| {
        if !a.id.is_empty() {
            ids.push(a.id.clone());
        }
        if let ActKind::Subflow { to, .. } = &a.kind {
            let _ = (to, all_models);
        }
    });
    let n = ids.len();
    ids.sort();
    ids.dedup();
    ok && ids.len() == n
}
