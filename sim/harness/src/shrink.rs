//! Minimisation of a failing case: structure-aware delta debugging over the explicit scenario
//! (generic over its JSON form: drop list elements, null optional fields, simplify scalars), then
//! over the decision trace (lenient replay with blocks of decisions set to the default 0).
use crate::checks::*;
use crate::scenario::Scenario;
use serde_json::Value;
use std::time::Instant;

pub struct Repro {
    pub scenario: Scenario,
    pub decisions: Vec<Vec<(u16, u32, u32)>>,
    pub violation: Violation,
    pub log_hashes: Vec<u64>,
}

pub fn try_case(def: &CheckDef, tier: &str, case_seed: u64, sc: &Scenario, decisions: Option<Vec<Vec<(u16, u32, u32)>>>, strict: bool, class: &str) -> Option<Repro> {
    let mut ctx = CaseCtx::new(def.id, tier, case_seed);
    ctx.scenario_override = Some(sc.clone());
    ctx.decisions_override = decisions;
    ctx.strict = strict;
    // a candidate scenario can be outside of what the case function expects (e.g. no model left)
    let out = match std::panic::catch_unwind(std::panic::AssertUnwindSafe(|| (def.case)(&mut ctx))) {
        Ok(o) => o,
        Err(_) => return None,
    };
    if strict && ctx.diverged.is_some() {
        return None;
    }
    let v = out.violations.into_iter().find(|v| v.class() == class)?;
    Some(Repro { scenario: sc.clone(), decisions: ctx.decisions, violation: v, log_hashes: ctx.log_hashes })
}

fn collect_paths(v: &Value, path: &mut Vec<String>, out: &mut Vec<(Vec<String>, &'static str, usize)>) {
    match v {
        Value::Array(a) => {
            for i in 0..a.len() {
                out.push((path.clone(), "remove", i));
            }
            for (i, x) in a.iter().enumerate() {
                path.push(i.to_string());
                collect_paths(x, path, out);
                path.pop();
            }
        }
        Value::Object(m) => {
            for (k, x) in m {
                path.push(k.clone());
                match (k.as_str(), x) {
                    ("cond", Value::Object(_)) | ("next", Value::String(_)) | ("adversary", Value::Object(_)) | ("on", Value::String(_)) => out.push((path.clone(), "null", 0)),
                    ("policy", Value::String(s)) if s != "fifo" => out.push((path.clone(), "fifo", 0)),
                    ("mode", Value::String(s)) if s != "sequential" && (s == "spawned" || s == "inline") => out.push((path.clone(), "sequential", 0)),
                    ("order", Value::String(s)) if s != "fifo" => out.push((path.clone(), "fifo", 0)),
                    ("repeat", Value::Number(n)) if n.as_u64() != Some(0) => out.push((path.clone(), "zero", 0)),
                    ("tie_permille", Value::Number(n)) if n.as_u64() != Some(0) => out.push((path.clone(), "zero", 0)),
                    ("ticks", Value::Number(n)) if n.as_u64() != Some(0) => out.push((path.clone(), "dec", 0)),
                    ("pre_jump_us", Value::Number(n)) if n.as_u64() != Some(0) => out.push((path.clone(), "zero", 0)),
                    ("deploy_yaml", Value::Bool(false)) => out.push((path.clone(), "true", 0)),
                    _ => {}
                }
                collect_paths(x, path, out);
                path.pop();
            }
        }
        _ => {}
    }
}

fn at_mut<'a>(v: &'a mut Value, path: &[String]) -> Option<&'a mut Value> {
    let mut cur = v;
    for p in path {
        cur = match cur {
            Value::Array(a) => a.get_mut(p.parse::<usize>().ok()?)?,
            Value::Object(m) => m.get_mut(p)?,
            _ => return None,
        };
    }
    Some(cur)
}

fn apply(v: &Value, edit: &(Vec<String>, &'static str, usize)) -> Option<Value> {
    let mut v = v.clone();
    let t = at_mut(&mut v, &edit.0)?;
    match edit.1 {
        "remove" => {
            let a = t.as_array_mut()?;
            if edit.2 >= a.len() {
                return None;
            }
            a.remove(edit.2);
        }
        "null" => *t = Value::Null,
        "fifo" => *t = Value::String("fifo".into()),
        "sequential" => *t = Value::String("sequential".into()),
        "zero" => *t = serde_json::json!(0),
        "true" => *t = Value::Bool(true),
        "dec" => *t = serde_json::json!(t.as_u64()?.saturating_sub(1)),
        _ => return None,
    }
    Some(v)
}

pub fn shrink(def: &CheckDef, tier: &str, case_seed: u64, start: Repro, budget_s: f64) -> (Repro, u32, u32) {
    let t0 = Instant::now();
    let class = start.violation.class();
    let mut best = start;
    let mut tried = 0u32;
    let mut kept = 0u32;
    // phase 1: scenario
    'outer: loop {
        let v = serde_json::to_value(&best.scenario).unwrap();
        let mut edits = vec![];
        collect_paths(&v, &mut vec![], &mut edits);
        // big removals first: shallow paths first
        edits.sort_by_key(|e| e.0.len());
        let mut progress = false;
        for e in &edits {
            if t0.elapsed().as_secs_f64() > budget_s * 0.7 {
                break 'outer;
            }
            if e.0.first().map(|k| def.no_shrink.contains(&k.as_str())).unwrap_or(false) {
                continue;
            }
            let Some(nv) = apply(&v, e) else { continue };
            let Ok(sc) = serde_json::from_value::<Scenario>(nv) else { continue };
            if sc.channels.is_empty() || sc.starts.is_empty() && best.scenario.starts.len() > 0 {
                continue;
            }
            let names: Vec<String> = sc.models.iter().map(|m| m.id.clone()).collect();
            if !sc.models.iter().all(|m| crate::model::valid_model(m, &names)) {
                continue;
            }
            tried += 1;
            if let Some(r) = try_case(def, tier, case_seed, &sc, None, false, &class) {
                best = r;
                kept += 1;
                progress = true;
                continue 'outer;
            }
        }
        if !progress {
            break;
        }
    }
    // phase 2: decisions (lenient replay, zero out blocks)
    let mut dec = best.decisions.clone();
    for ri in 0..dec.len() {
        let n = dec[ri].len();
        let mut block = (n / 2).max(1);
        while block >= 1 {
            let mut i = 0;
            while i < dec[ri].len() {
                if t0.elapsed().as_secs_f64() > budget_s {
                    break;
                }
                let end = (i + block).min(dec[ri].len());
                if dec[ri][i..end].iter().all(|d| d.2 == 0) {
                    i = end;
                    continue;
                }
                let mut cand = dec.clone();
                for d in cand[ri][i..end].iter_mut() {
                    d.2 = 0;
                }
                tried += 1;
                if let Some(r) = try_case(def, tier, case_seed, &best.scenario, Some(cand.clone()), false, &class) {
                    // adopt the decisions as actually taken
                    dec = r.decisions.clone();
                    best = r;
                    kept += 1;
                }
                i = end;
            }
            if block == 1 {
                break;
            }
            block /= 2;
            if block > 64 && dec[ri].len() > 2000 {
                // long traces: do not go to single decisions
            }
            if t0.elapsed().as_secs_f64() > budget_s {
                break;
            }
            if block < 1 {
                break;
            }
            if dec[ri].len() > 4000 && block < 16 {
                break;
            }
        }
    }
    // final strict run of the minimised pair
    if let Some(r) = try_case(def, tier, case_seed, &best.scenario, Some(best.decisions.clone()), true, &class) {
        best = r;
    }
    (best, tried, kept)
}
