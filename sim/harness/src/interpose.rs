//! `getrandom` interposition: std seeds `RandomState` (HashMap iteration order) through the libc
//! symbol `getrandom`; defining it in the binary makes that order a function of the run seed.
//! Keys are per OS thread and incremented per map, so every simulated run (and every virtual
//! thread) executes on a fresh OS thread.
use std::sync::atomic::{AtomicU64, Ordering};

static RUN_SEED: AtomicU64 = AtomicU64::new(0x5eed);
static THREAD_CTR: AtomicU64 = AtomicU64::new(0);
static CALLS: AtomicU64 = AtomicU64::new(0);

thread_local! {
    static TSTATE: std::cell::Cell<(u64, u64)> = const { std::cell::Cell::new((u64::MAX, 0)) };
}

/// called at the beginning of every simulated run (before its thread is spawned)
pub fn set_run_seed(seed: u64) {
    RUN_SEED.store(seed, Ordering::SeqCst);
    THREAD_CTR.store(0, Ordering::SeqCst);
}

pub fn calls() -> u64 {
    CALLS.load(Ordering::Relaxed)
}

fn splitmix(x: &mut u64) -> u64 {
    *x = x.wrapping_add(0x9e3779b97f4a7c15);
    let mut z = *x;
    z = (z ^ (z >> 30)).wrapping_mul(0xbf58476d1ce4e5b9);
    z = (z ^ (z >> 27)).wrapping_mul(0x94d049bb133111eb);
    z ^ (z >> 31)
}

#[no_mangle]
pub unsafe extern "C" fn getrandom(buf: *mut u8, len: usize, _flags: u32) -> isize {
    CALLS.fetch_add(1, Ordering::Relaxed);
    let (tid, ctr) = TSTATE.with(|c| {
        let (mut tid, ctr) = c.get();
        if tid == u64::MAX {
            tid = THREAD_CTR.fetch_add(1, Ordering::SeqCst);
        }
        c.set((tid, ctr + 1));
        (tid, ctr)
    });
    let mut x = RUN_SEED.load(Ordering::SeqCst) ^ tid.wrapping_mul(0xa24baed4963ee407) ^ ctr.wrapping_mul(0x9fb21c651e98df25);
    let mut i = 0;
    while i < len {
        let v = splitmix(&mut x).to_le_bytes();
        let n = (len - i).min(8);
        std::ptr::copy_nonoverlapping(v.as_ptr(), buf.add(i), n);
        i += n;
    }
    len as isize
}
