//! One simulated run of a scenario, on a fresh OS thread.
use crate::obs::RunRecord;
use crate::scenario::Scenario;
use crate::world::World;
use std::sync::atomic::{AtomicU64, Ordering};

static RUN_TAG: AtomicU64 = AtomicU64::new(0);

pub struct RunOpts {
    pub seed: u64,
    pub decisions: Option<Vec<(u16, u32, u32)>>,
    pub strict: bool,
    pub keep_log: bool,
}

impl RunOpts {
    pub fn seed(seed: u64) -> Self {
        RunOpts { seed, decisions: None, strict: false, keep_log: false }
    }
}

thread_local! {
    pub static LAST_PANIC: std::cell::RefCell<Option<String>> = const { std::cell::RefCell::new(None) };
}

pub fn install_panic_hook() {
    std::panic::set_hook(Box::new(|info| {
        let loc = info.location().map(|l| format!("{}:{}", l.file(), l.line())).unwrap_or_default();
        let msg = info
            .payload()
            .downcast_ref::<String>()
            .cloned()
            .or_else(|| info.payload().downcast_ref::<&str>().map(|s| s.to_string()))
            .unwrap_or_default();
        // panics inside a simulated run are caught and recorded with the run; a panic anywhere else (the worker's
        // own loop, an oracle) ends the process and must be seen
        let tn = std::thread::current().name().map(|s| s.to_string()).unwrap_or_default();
        let in_run = tn == "sim-run" || tn.starts_with("vt-");
        if !in_run || std::env::var("VERIF_SHOW_PANICS").is_ok() {
            eprintln!("panic at {loc} (thread `{tn}`): {msg}");
        }
        LAST_PANIC.with(|p| *p.borrow_mut() = Some(format!("{loc}: {msg}")));
    }));
}

/// run a scenario under the simulator; `body` drives the world (default: deploy + drive)
pub fn run_with<F>(sc: &Scenario, opts: RunOpts, body: F) -> RunRecord
where
    F: FnOnce(&mut World) + Send + 'static,
{
    let sc = sc.clone();
    let tag = RUN_TAG.fetch_add(1, Ordering::SeqCst);
    crate::interpose::set_run_seed(opts.seed);
    let h = std::thread::Builder::new()
        .name("sim-run".into())
        .stack_size(16 << 20)
        .spawn(move || {
            // fix this thread's RandomState keys first (thread index 0 of the run)
            let _ = std::collections::hash_map::RandomState::new();
            let knobs = vsim::Knobs {
                policy: vsim::Policy::parse(&sc.knobs.policy).unwrap_or(vsim::Policy::Random),
                tie_permille: sc.knobs.tie_permille,
                max_delta_us: sc.knobs.max_delta_us.max(1),
                pct_len: 400,
                keep_log: opts.keep_log,
            };
            match opts.decisions {
                Some(d) => vsim::install_replay(opts.seed, knobs, d, opts.strict),
                None => vsim::install(opts.seed, knobs),
            }
            let res = std::panic::catch_unwind(std::panic::AssertUnwindSafe(|| {
                let mut w = World::new(&sc, tag);
                body(&mut w);
                w.finish()
            }));
            let rep = vsim::uninstall();
            let mut rec = match res {
                Ok(r) => r,
                Err(_) => {
                    World::detach();
                    let mut r = RunRecord::default();
                    let msg = LAST_PANIC.with(|p| p.borrow().clone()).unwrap_or_default();
                    r.panics.push(format!("harness thread: {msg}"));
                    r
                }
            };
            rec.log_hash = rep.log_hash;
            rec.sched_hash = rep.sched_hash;
            rec.decisions = rep.trace;
            rec.diverged = rep.diverged;
            rec.sim_time_us = rep.now_us - vsim::EPOCH_START_US;
            rec.log_lines = rep.log_lines;
            rec.panics.extend(rep.panics);
            let st = &rep.stats;
            for (k, v) in [
                ("sim.polls", st.polls),
                ("sim.spawned", st.spawned),
                ("sim.choices", st.choices),
                ("sim.clock_reads", st.clock_reads),
                ("sim.clock_ties", st.clock_ties),
                ("sim.timers_fired", st.timers_fired),
                ("sim.sched_nontrivial", st.sched_nontrivial),
                ("sim.sched_nonfifo", st.sched_nonfifo),
                ("sim.max_ready", st.max_ready),
                ("sim.crashes", st.crashes),
                ("sim.tasks_dropped_by_crash", st.tasks_dropped_by_crash),
            ] {
                *rec.counters.entry(k.to_string()).or_default() += v;
            }
            rec
        })
        .expect("spawn run thread");
    h.join().expect("run thread")
}

pub fn run(sc: &Scenario, opts: RunOpts) -> RunRecord {
    run_with(sc, opts, |w| {
        if let Err(e) = w.deploy_all() {
            w.rec.lock().unwrap().rec.panics.push(format!("deploy: {e}"));
            return;
        }
        w.drive();
    })
}
