//! C04 — Control flow conforms to the YAML: order, branch selection, skips.
use super::common::*;
use crate::checks::*;
use crate::gen::*;
use crate::imgx;
use crate::model::*;
use crate::obs::*;
use crate::refflow::{self, Expect};
use crate::scenario::*;
use serde_json::json;
use std::collections::BTreeMap;

pub fn def() -> CheckDef {
    CheckDef {
        id: "C04",
        title: "Control flow conforms to the YAML: order, branch selection, skips",
        case,
        rule: "case = generated model of the bounded grammar (depth<=3, <=4 steps, <=3 branches, <=3 acts, conditions over inputs a,b in 0..3; a quarter of the models with a backward `next` jump: counting step `linc`, jump step `lstep` (with an act, empty, or skipped) in the if-branch `c < K` of `ljmp`, optional else-branch, K in 2..4 visits) x one valuation x three variants (declared branch order / shuffled / reversed, each under another scheduler policy, clock-tie rate and client mode); every variant is compared with the reference interpreter RefFlow, loop models with RefLoop (visit after visit with the counter updated: number of instances per node and their final states; ordering constraints inside every visit) (which nodes run, final states, ordering constraints on the trace) and the variants with each other (metamorphic: the outcome must not depend on declaration order or schedule). non-trivial = the model has a branching step or a conditional node and the three runs took >= 2 distinct schedules; distinct = distinct (model+valuation hash, schedule hash)",
        level: "exploration",
        assumptions: &["monotone simulated clock", "RefFlow interprets the fragment without writers, generators and catches; jumps only in the one loop family (the counter act is the only writer); a needs-branch whose needed sibling was skipped is left open (either)", "runtime worker threads are approximated by task-level interleaving on layer 1"],
        probes: &["probe.else_taken", "probe.else_not_taken", "probe.needs_ran", "probe.step_skipped", "probe.act_skipped", "probe.nested_depth3", "probe.either_nodes", "probe.loop_model", "probe.loop_taken_twice_or_more"],
        quick_cases: 2500,
        no_shrink: &[],
    }
}

fn gen_scenario(rng: &mut vsim::rng::Rng) -> Scenario {
    let mut cfg = GenCfg::control();
    cfg.p_branches = *rng.pick(&[400, 600, 800]);
    cfg.p_else = *rng.pick(&[300, 600, 900]);
    cfg.p_needs = *rng.pick(&[0, 200, 400]);
    cfg.p_step_if = *rng.pick(&[0, 200, 350]);
    cfg.p_act_if = *rng.pick(&[0, 200, 350]);
    cfg.p_empty_branch = *rng.pick(&[0, 150, 300]);
    cfg.max_steps = 1 + rng.below(4) as u32;
    let looping = rng.below(4) == 0;
    if looping {
        cfg.max_steps = 1 + rng.below(3) as u32;
        // what a visit leaves behind must not decide the next one: more needs-branches inside loops
        cfg.p_needs = *rng.pick(&[200, 400, 600]);
        cfg.p_branches = *rng.pick(&[600, 800]);
    }
    let mut g = Gen::new(rng, cfg);
    let mut m = g.workflow("m");
    let mut sc = Scenario::default();
    let mut vars = valuation(rng, 3);
    if looping {
        add_loop(&mut m, rng);
        vars.insert("c".into(), json!(0));
    }
    sc.models.push(m);
    sc.starts.push(Start { model: "m".into(), vars, pid: Some("p1".into()), at_q: 0 });
    sc.engine.keep_processes = true;
    sc.capture = false;
    sc
}

/// reference interpretation of a model with the loop of `add_loop`: the list of final states of the instances of
/// every node (None = the statements leave it open), the number of visits, and the within-visit ordering
/// constraints
fn ref_loop(m: &MWorkflow, vals: &BTreeMap<String, i64>) -> (BTreeMap<String, Option<Vec<String>>>, usize, Vec<(String, String)>, BTreeMap<String, String>) {
    let mut inst: BTreeMap<String, Option<Vec<String>>> = BTreeMap::new();
    let mut kinds: BTreeMap<String, String> = BTreeMap::new();
    let mut after: Vec<(String, String)> = vec![];
    let mut env = vals.clone();
    let mut visits = 0usize;
    let mut pc = 0usize;
    let mut guard = 0;
    let mut prev_top: Option<String> = None;
    inst.insert(m.id.clone(), Some(vec!["completed".into()]));
    kinds.insert(m.id.clone(), "workflow".into());
    while pc < m.steps.len() && guard < 64 {
        guard += 1;
        let s = &m.steps[pc];
        if let Some(p) = &prev_top {
            if !after.contains(&(p.clone(), s.id.clone())) {
                after.push((p.clone(), s.id.clone()));
            }
        }
        prev_top = Some(s.id.clone());
        if s.id == "linc" {
            visits += 1;
            *env.entry("c".into()).or_insert(0) += 1;
        }
        let p = refflow::predict_steps(std::slice::from_ref(s), &env);
        for (nid, e) in &p.nodes {
            kinds.insert(nid.clone(), p.kinds.get(nid).cloned().unwrap_or_default());
            let slot = inst.entry(nid.clone()).or_insert_with(|| Some(vec![]));
            match e {
                Expect::Completed => {
                    if let Some(v) = slot {
                        v.push("completed".into())
                    }
                }
                Expect::Skipped => {
                    if let Some(v) = slot {
                        v.push("skipped".into())
                    }
                }
                Expect::Absent => {}
                Expect::Either => *slot = None,
            }
        }
        for c in p.after {
            if !after.contains(&c) {
                after.push(c);
            }
        }
        if s.id == "ljmp" {
            let taken = p.nodes.get("lb") == Some(&Expect::Completed);
            if taken {
                pc = m.steps.iter().position(|x| x.id == "linc").unwrap_or(0);
                // the jump leads from lstep back to linc
                prev_top = None;
                continue;
            }
        }
        pc += 1;
    }
    for v in inst.values_mut().flatten() {
        v.sort();
    }
    (inst, visits, after, kinds)
}

fn loop_case(ctx: &mut CaseCtx, base: &Scenario) -> CaseOut {
    let mut out = CaseOut { scenario: Some(base.clone()), ..Default::default() };
    let m0 = base.models[0].clone();
    // the fragment: the loop's own code act is the only writer
    let mut plain = m0.clone();
    plain.steps.retain(|s| s.id != "linc");
    fn strip_next(steps: &mut [MStep]) {
        for s in steps.iter_mut() {
            if s.id == "lstep" {
                s.next = None;
            }
            for b in s.branches.iter_mut() {
                strip_next(&mut b.steps);
            }
        }
    }
    strip_next(&mut plain.steps);
    if !refflow::in_control_fragment(&plain) {
        out.discarded = Some("model outside the control fragment".into());
        return out;
    }
    let vals: BTreeMap<String, i64> = base.starts[0].vars.iter().map(|(k, v)| (k.clone(), v.as_i64().unwrap_or(0))).collect();
    let (inst, visits, after, kinds) = ref_loop(&m0, &vals);
    let roles = imgx::branch_roles(&base.models);
    ctx.count("probe.loop_model", 1);
    if visits >= 2 {
        ctx.count("probe.loop_taken_twice_or_more", 1);
    }
    let mut canon: Vec<BTreeMap<String, Vec<String>>> = vec![];
    let mut scheds = vec![];
    for variant in 0..2u8 {
        let mut sc = base.clone();
        let mut vr = vsim::rng::Rng::new(vsim::rng::mix(&[ctx.case_seed, 78, variant as u64]));
        sc.models[0] = permute(&m0, if variant == 1 { 2 } else { 0 }, &mut vr);
        sc.knobs = random_knobs(&mut vr);
        sc.client.mode = ["sequential", "spawned"][variant as usize].to_string();
        sc.client.order = if variant == 1 { "random".into() } else { "fifo".into() };
        let rec = ctx.run(&sc);
        if discard_if_broken(&rec, &mut out) {
            return out;
        }
        scheds.push(rec.sched_hash);
        let c = canonical(&rec);
        let sig = |node: &str, how: &str, _want: &Vec<String>, _got: &Vec<String>| json!({"loop": true, "node": kinds.get(node).cloned().unwrap_or_default(), "role": roles.get(node).cloned().unwrap_or_default(), "how": how});
        let _ = (&sig, 0);
        for (nid, exp) in &inst {
            let Some(w) = exp else { continue };
            let got = c.get(nid).cloned().unwrap_or_default();
            if &got != w {
                let how = if got.len() != w.len() { "instance_count" } else if got.iter().any(|s| s == "running") { "left_running" } else { "wrong_final_state" };
                out.violations.push(Violation::new("C04", "differs_from_reference", sig(nid, how, w, &got), format!("loop model, variant {} ({} visits expected for c<K from a={} b={}): node {} has instances with final states {:?}, the reference interpretation says {:?}", variant, visits, vals.get("a").unwrap_or(&0), vals.get("b").unwrap_or(&0), nid, got, w)));
                break;
            }
        }
        if out.violations.is_empty() {
            for (nid, got) in &c {
                if !inst.contains_key(nid) {
                    out.violations.push(Violation::new("C04", "unknown_node_ran", json!({"got": got, "loop": true}), format!("loop model, variant {}: a task of node {} exists ({:?}) that the model does not declare", variant, nid, got)));
                    break;
                }
            }
        }
        // ordering inside every visit: the trace is cut at the creations of `linc`
        if out.violations.is_empty() {
            let mut cuts: Vec<u64> = rec.trans.iter().filter(|t| t.nid == "linc" && t.old == "none").map(|t| t.seq).collect();
            cuts.insert(0, 0);
            cuts.push(u64::MAX);
            'w: for wnd in cuts.windows(2) {
                let inw = |t: &&TransRec| t.seq >= wnd[0] && t.seq < wnd[1];
                for (a, b) in &after {
                    let is_needs = roles.get(b).map(|r| r == "needs").unwrap_or(false);
                    // instances are attributed to the visit in which they were created
                    let created_here = |nid: &String| rec.trans.iter().filter(inw).filter(|t| &t.nid == nid && t.old == "none").map(|t| t.tid.clone()).collect::<Vec<_>>();
                    let (ta, tb) = (created_here(a), created_here(b));
                    if ta.is_empty() || tb.is_empty() {
                        continue;
                    }
                    let a_term = rec.trans.iter().filter(|t| ta.contains(&t.tid) && is_terminal_state(&t.new)).map(|t| t.seq).min();
                    let b_start = rec.trans.iter().filter(|t| tb.contains(&t.tid) && if is_needs { t.new == "running" } else { t.old == "none" }).map(|t| t.seq).min();
                    if let Some(bs) = b_start {
                        if a_term.map(|at| bs < at).unwrap_or(true) {
                            let kind = kinds.get(b).cloned().unwrap_or_default();
                            out.violations.push(Violation::new("C04", "started_before_predecessor_finished", json!({"node": kind, "role": roles.get(b).cloned().unwrap_or_default(), "loop": true, "first_visit": wnd[0] == 0 || cuts.get(1) == Some(&wnd[0])}), format!("loop model, variant {}: in the visit that starts at seq {} {} {} started at seq {} before its predecessor {} of the same visit was terminal ({:?})", variant, wnd[0], kind, b, bs, a, a_term)));
                            break 'w;
                        }
                    }
                }
            }
        }
        if out.violations.is_empty() && !inst.values().any(|e| e.is_none()) {
            let done = rec.msgs.iter().any(|m| m.via == "complete" && m.state == "completed");
            if !done && !rec.step_cap_hit {
                out.violations.push(Violation::new("C04", "process_did_not_complete", json!({"loop": true}), format!("loop model, variant {}: every interrupt was answered but the process did not deliver a completed event", variant)));
            }
        }
        if !out.violations.is_empty() {
            return out;
        }
        canon.push(c);
    }
    if canon[1] != canon[0] {
        let diff: Vec<String> = canon[0].iter().filter(|(k, v)| canon[1].get(*k) != Some(v)).map(|(k, v)| format!("{}: {:?} vs {:?}", k, v, canon[1].get(k))).collect();
        out.violations.push(Violation::new("C04", "outcome_depends_on_order_or_schedule", json!({"loop": true}), format!("loop model: variant 0 and variant 1 differ: {}", diff.join("; "))));
        return out;
    }
    scheds.sort();
    scheds.dedup();
    out.nontrivial = visits >= 2;
    out.outcome_hash = vsim::hash_str(&format!("{:?}", canon[0]));
    out.sample = sample_of(base, json!({"valuation": vals, "visits": visits, "outcome": canon[0]}));
    out
}

fn permute(m: &MWorkflow, mode: u8, rng: &mut vsim::rng::Rng) -> MWorkflow {
    fn step(s: &mut MStep, mode: u8, rng: &mut vsim::rng::Rng) {
        match mode {
            1 => rng.shuffle(&mut s.branches),
            2 => s.branches.reverse(),
            _ => {}
        }
        for b in s.branches.iter_mut() {
            for s2 in b.steps.iter_mut() {
                step(s2, mode, rng);
            }
        }
    }
    let mut m = m.clone();
    for s in m.steps.iter_mut() {
        step(s, mode, rng);
    }
    m
}

fn canonical(rec: &RunRecord) -> BTreeMap<String, Vec<String>> {
    let mut last: BTreeMap<(String, String), (String, String)> = BTreeMap::new();
    for t in &rec.trans {
        last.insert((t.pid.clone(), t.tid.clone()), (t.nid.clone(), t.new.clone()));
    }
    let mut out: BTreeMap<String, Vec<String>> = BTreeMap::new();
    for (_, (nid, st)) in last {
        out.entry(nid).or_default().push(st);
    }
    for v in out.values_mut() {
        v.sort();
    }
    out
}

pub fn case(ctx: &mut CaseCtx) -> CaseOut {
    let base = ctx.scenario(gen_scenario);
    let mut out = CaseOut { scenario: Some(base.clone()), ..Default::default() };
    let m0 = base.models[0].clone();
    if m0.steps.iter().any(|s| s.id == "linc") {
        return loop_case(ctx, &base);
    }
    if !refflow::in_control_fragment(&m0) {
        out.discarded = Some("model outside the control fragment".into());
        return out;
    }
    let vals: BTreeMap<String, i64> = base.starts[0].vars.iter().map(|(k, v)| (k.clone(), v.as_i64().unwrap_or(0))).collect();
    let pred = refflow::predict(&m0, &vals);
    let roles = imgx::branch_roles(&base.models);
    let mut canon: Vec<BTreeMap<String, Vec<String>>> = vec![];
    let mut scheds = vec![];
    for variant in 0..3u8 {
        // the variant's knobs come from the case stream (so they are part of the replayable case)
        let mut sc = base.clone();
        let mut vr = vsim::rng::Rng::new(vsim::rng::mix(&[ctx.case_seed, 77, variant as u64]));
        sc.models[0] = permute(&m0, variant, &mut vr);
        sc.knobs = if variant == 2 { SimKnobs { policy: "fifo".into(), tie_permille: 0, max_delta_us: 40 } } else { random_knobs(&mut vr) };
        sc.client.mode = ["sequential", "spawned", "inline"][variant as usize].to_string();
        sc.client.order = if variant == 1 { "random".into() } else { "fifo".into() };
        sc.deploy_yaml = variant != 1;
        let rec = ctx.run(&sc);
        if discard_if_broken(&rec, &mut out) {
            return out;
        }
        scheds.push(rec.sched_hash);
        let c = canonical(&rec);
        // differential against RefFlow
        for (nid, exp) in &pred.nodes {
            let got = c.get(nid).cloned().unwrap_or_default();
            let kind = pred.kinds.get(nid).cloned().unwrap_or_default();
            let role = roles.get(nid).cloned().unwrap_or_default();
            let want: Option<Vec<String>> = match exp {
                Expect::Completed => Some(vec!["completed".into()]),
                Expect::Skipped => Some(vec!["skipped".into()]),
                Expect::Absent => Some(vec![]),
                Expect::Either => None,
            };
            if let Some(w) = want {
                if got != w {
                    let why = if got.len() > 1 { "several_instances" } else if got.is_empty() { "did_not_run" } else if w.is_empty() { "ran_but_must_not" } else { "wrong_final_state" };
                    out.violations.push(Violation::new(
                        "C04",
                        "differs_from_reference",
                        json!({"node": kind, "role": role, "how": why, "want": w, "got": got}),
                        format!("variant {} (branch order {}, policy {}, client {}): node {} ({}) has instances with final states {:?}, the reference interpretation says {:?} for a={} b={}", variant, ["declared", "shuffled", "reversed"][variant as usize], sc.knobs.policy, sc.client.mode, nid, kind, got, w, vals.get("a").unwrap_or(&0), vals.get("b").unwrap_or(&0)),
                    ));
                    break;
                }
            }
        }
        // nodes the reference does not know (must not exist in this fragment)
        if out.violations.is_empty() {
            for (nid, got) in &c {
                if !pred.nodes.contains_key(nid) {
                    out.violations.push(Violation::new("C04", "unknown_node_ran", json!({"got": got}), format!("variant {}: a task of node {} exists ({:?}) that the model does not declare", variant, nid, got)));
                    break;
                }
            }
        }
        // ordering constraints on the trace
        if out.violations.is_empty() {
            for (a, b) in &pred.after {
                let a_term = rec.trans.iter().filter(|t| &t.nid == a && is_terminal_state(&t.new)).map(|t| t.seq).min();
                // a needs-branch is created with its siblings and *starts* (running) later
                let is_needs = roles.get(b).map(|r| r == "needs").unwrap_or(false);
                let b_created = rec.trans.iter().filter(|t| &t.nid == b && if is_needs { t.new == "running" } else { t.old == "none" }).map(|t| t.seq).min();
                if let (Some(at), Some(bc)) = (a_term, b_created) {
                    if bc < at {
                        let kind = pred.kinds.get(b).cloned().unwrap_or_default();
                        out.violations.push(Violation::new("C04", "started_before_predecessor_finished", json!({"node": kind, "role": roles.get(b).cloned().unwrap_or_default()}), format!("variant {}: {} {} was created at seq {} before its predecessor {} was terminal (seq {})", variant, kind, b, bc, a, at)));
                        break;
                    }
                }
            }
        }
        // the process completes
        if out.violations.is_empty() && !pred.nodes.values().any(|e| *e == Expect::Either) {
            let done = rec.msgs.iter().any(|m| m.via == "complete" && m.state == "completed");
            if !done && !rec.step_cap_hit {
                out.violations.push(Violation::new("C04", "process_did_not_complete", json!({}), format!("variant {}: every interrupt was answered but the process did not deliver a completed event", variant)));
            }
        }
        if !out.violations.is_empty() {
            // the failing variant is the scenario of the replay file
            out.scenario = Some(base.clone());
            return out;
        }
        canon.push(c);
    }
    // metamorphic: same outcome for every declaration order / schedule (also where the reference says `either`)
    for i in 1..canon.len() {
        if canon[i] != canon[0] {
            let diff: Vec<String> = canon[0].iter().filter(|(k, v)| canon[i].get(*k) != Some(v)).map(|(k, v)| format!("{}: {:?} vs {:?}", k, v, canon[i].get(k))).chain(canon[i].iter().filter(|(k, _)| !canon[0].contains_key(*k)).map(|(k, v)| format!("{}: [] vs {:?}", k, v))).collect();
            let nid = diff.first().map(|d| d.split(':').next().unwrap_or("").to_string()).unwrap_or_default();
            out.violations.push(Violation::new(
                "C04",
                "outcome_depends_on_order_or_schedule",
                json!({"node": pred.kinds.get(&nid).cloned().unwrap_or_default(), "role": roles.get(&nid).cloned().unwrap_or_default()}),
                format!("variant 0 and variant {} differ: {}", i, diff.join("; ")),
            ));
            return out;
        }
    }
    // probes
    let has = |f: &dyn Fn(&String, &Expect) -> bool| pred.nodes.iter().any(|(k, e)| f(k, e));
    if has(&|k, e| roles.get(k).map(|r| r == "else").unwrap_or(false) && *e == Expect::Completed) {
        ctx.count("probe.else_taken", 1);
    }
    if has(&|k, e| roles.get(k).map(|r| r == "else").unwrap_or(false) && *e == Expect::Skipped) {
        ctx.count("probe.else_not_taken", 1);
    }
    if has(&|k, e| roles.get(k).map(|r| r == "needs").unwrap_or(false) && *e == Expect::Completed) {
        ctx.count("probe.needs_ran", 1);
    }
    if has(&|k, e| pred.kinds.get(k).map(|x| x == "step").unwrap_or(false) && *e == Expect::Skipped) {
        ctx.count("probe.step_skipped", 1);
    }
    if has(&|k, e| pred.kinds.get(k).map(|x| x == "act").unwrap_or(false) && *e == Expect::Skipped) {
        ctx.count("probe.act_skipped", 1);
    }
    if has(&|_, e| *e == Expect::Either) {
        ctx.count("probe.either_nodes", 1);
    }
    let mut depth3 = false;
    for s in &m0.steps {
        for b in &s.branches {
            for s2 in &b.steps {
                if !s2.branches.is_empty() {
                    depth3 = true;
                }
            }
        }
    }
    if depth3 {
        ctx.count("probe.nested_depth3", 1);
    }
    scheds.sort();
    scheds.dedup();
    let branching = !roles.is_empty() || has(&|_, e| *e == Expect::Skipped);
    out.nontrivial = branching && scheds.len() >= 2;
    out.outcome_hash = vsim::hash_str(&format!("{:?}", canon[0]));
    out.sample = sample_of(&base, json!({"valuation": vals, "outcome": canon[0], "reference": pred.nodes.iter().map(|(k, e)| format!("{}={:?}", k, e)).collect::<Vec<_>>()}));
    out
}
