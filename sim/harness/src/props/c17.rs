//! C17 — Retention: finished processes leave exactly what the configuration says.
use super::common::*;
use crate::checks::*;
use crate::gen::*;
use crate::model::*;
use crate::obs::*;
use crate::scenario::*;
use acts::query::Query;
use serde_json::{json, Map};
use std::collections::{BTreeMap, BTreeSet};
use std::sync::{Arc, Mutex};

pub fn def() -> CheckDef {
    CheckDef {
        id: "C17",
        title: "Retention: finished processes leave exactly what the configuration says",
        case,
        rule: "case = 2..5 interleaved processes of 1..3 generated models (each with 0..2 registered start events) that end by completion, error, abort or skip (decided by the scripted client) x keep_processes on/off x store backend x an acknowledging channel (so that message records exist) x late adversary actions after a process has ended x seeded answer order and schedule, and finally the removal of one model. After every terminal event and the following quiescence the exact row sets are compared: default configuration - no process row and no task row of that pid is left and every further action on it is refused; keep_processes - all rows remain, the process row is terminal and (for non-error endings) every task row is terminal; rows of other pids and all message records are untouched by the removal; removing a model deletes exactly the events whose mid is that model and exactly that model row. non-trivial = at least two processes ended in different ways while another one was still running; distinct = distinct (scenario hash, schedule hash)",
        level: "exploration",
        assumptions: &["rows are read from the backing collections at quiescent points", "monotone simulated clock", "no storage errors are injected"],
        probes: &["probe.ended_completed", "probe.ended_error", "probe.ended_aborted", "probe.keep_processes", "probe.default_retention", "probe.sqlite", "probe.late_action", "probe.model_with_events_removed", "probe.other_process_running_at_removal", "probe.lifecycle_hook", "probe.cache_below_processes"],
        quick_cases: 3000,
        no_shrink: &[],
    }
}

fn gen_scenario(rng: &mut vsim::rng::Rng) -> Scenario {
    let nmodels = 1 + rng.below(3) as usize;
    let mut sc = Scenario::default();
    let mut reactions = BTreeMap::new();
    for mi in 0..nmodels {
        let opts = LifeOpts { catches: false, scripted_actions: &["complete", "complete", "error", "abort", "skip"], p_scripted: *rng.pick(&[200, 400, 600]), adversary: None, dup: false, generators: false, hooks: false, outputs: false, drop_outputs: false };
        let mut one = gen_lifecycle(rng, &opts);
        let mut m = one.models.remove(0);
        m.id = format!("m{}", mi + 1);
        let p = format!("m{}_", mi + 1);
        fn prefix(steps: &mut [MStep], p: &str) {
            for s in steps.iter_mut() {
                for a in s.acts.iter_mut() {
                    if !a.key.is_empty() {
                        a.key = format!("{}{}", p, a.key);
                    }
                }
                for b in s.branches.iter_mut() {
                    prefix(&mut b.steps, p);
                }
            }
        }
        prefix(&mut m.steps, &p);
        for (k, v) in one.client.reactions {
            reactions.insert(format!("{}{}", p, k), v);
        }
        let nev = rng.below(3);
        m.on = (0..nev).map(|i| format!("ev{}", i + 1)).collect();
        // a workflow-level lifecycle hook: its act is started (and saved) when the process is already ending
        if rng.below(3) == 0 {
            let on = rng.pick(&["completed", "completed", "created"]).to_string();
            m.setup.push(MAct { id: format!("hk{}", mi + 1), key: format!("{}hook", p), kind: ActKind::Msg, on: Some(on), ..Default::default() });
        }
        sc.models.push(m);
    }
    sc.client.reactions = reactions;
    let n = 2 + rng.below(4) as usize;
    for i in 0..n {
        let mut vars = Map::new();
        vars.insert("a".into(), json!(rng.range(0, 3)));
        vars.insert("b".into(), json!(rng.range(0, 3)));
        sc.starts.push(Start { model: format!("m{}", 1 + rng.below(nmodels as u64)), vars, pid: Some(format!("p{}", i + 1)), at_q: if rng.below(3) == 0 { 1 + rng.below(4) as usize } else { 0 } });
    }
    sc.channels = vec![ChanSpec { label: "main".into(), id: "ackmain".into(), ack: true, typ: "*".into(), state: "*".into(), tag: "*".into(), key: "*".into(), uses: "*".into() }];
    sc.client.ack = "now".into();
    sc.engine.keep_processes = rng.below(2) == 0;
    sc.engine.store = if rng.below(3) == 0 { "sqlite".into() } else { "mem".into() };
    // a cache smaller than the number of processes: a process may reach its end while it is not held by the cache
    if rng.below(3) == 0 {
        sc.engine.cache_cap = 1 + rng.below(2) as i64;
    }
    sc.client.mode = "sequential".into();
    sc.client.order = "random".into();
    sc.adversary = Some(AdversarySpec { permille: 200, max_actions: 8, actions: SEVEN.iter().map(|s| s.to_string()).collect() });
    sc.knobs = random_knobs(rng);
    sc.capture = true;
    sc.max_ops = 300;
    sc
}

pub fn case(ctx: &mut CaseCtx) -> CaseOut {
    let sc = ctx.scenario(gen_scenario);
    let mut out = CaseOut { scenario: Some(sc.clone()), ..Default::default() };
    let rm_model = sc.models.get((ctx.case_seed % sc.models.len().max(1) as u64) as usize).map(|m| m.id.clone()).unwrap_or_default();
    let side: Arc<Mutex<(Vec<(String, String)>, Vec<(String, String)>, Vec<String>, Vec<String>, String)>> = Arc::new(Mutex::new((vec![], vec![], vec![], vec![], String::new())));
    let side2 = side.clone();
    let rmm = rm_model.clone();
    let rec = ctx.run_with(&sc, move |w| {
        if let Err(e) = w.deploy_all() {
            w.rec.lock().unwrap().rec.panics.push(format!("deploy: {e}"));
            return;
        }
        w.drive();
        // remove one model: events and models before / after
        let cols = w.backing.clone().unwrap();
        let snap = |cols: &acts::verif::Collections| {
            let ev: Vec<(String, String)> = cols.events.query(&Query::new()).map(|p| p.rows.into_iter().map(|e| (e.id, e.mid)).collect()).unwrap_or_default();
            let md: Vec<String> = cols.models.query(&Query::new()).map(|p| p.rows.into_iter().map(|m| m.id).collect()).unwrap_or_default();
            (ev, md)
        };
        let (e0, m0) = snap(&cols);
        let r = w.engine().executor().model().rm(&rmm);
        let (e1, m1) = snap(&cols);
        let mut g = side2.lock().unwrap();
        *g = (e0, e1, m0, m1, format!("{:?}", r.map_err(|e| e.to_string())));
    });
    if discard_if_broken(&rec, &mut out) || rec.step_cap_hit {
        out.discarded.get_or_insert("step cap".into());
        return out;
    }
    if sc.models.iter().any(|m| !m.setup.is_empty()) {
        ctx.count("probe.lifecycle_hook", 1);
    }
    if (sc.engine.cache_cap as usize) < sc.starts.len() {
        ctx.count("probe.cache_below_processes", 1);
    }
    let keep = sc.engine.keep_processes;
    ctx.count(if keep { "probe.keep_processes" } else { "probe.default_retention" }, 1);
    if sc.engine.store == "sqlite" {
        ctx.count("probe.sqlite", 1);
    }
    let mut v: Vec<Violation> = vec![];
    let ends: Vec<&MsgRec> = rec.msgs.iter().filter(|m| m.via == "complete" || m.via == "error").collect();
    let mut endings = BTreeSet::new();
    let mut other_running = false;
    for e in &ends {
        let ending = if e.via == "error" { "error".to_string() } else { e.state.clone() };
        match ending.as_str() {
            "completed" => ctx.count("probe.ended_completed", 1),
            "error" => ctx.count("probe.ended_error", 1),
            "aborted" => ctx.count("probe.ended_aborted", 1),
            _ => {}
        }
        endings.insert(ending.clone());
        let Some(q) = rec.qpoints.iter().find(|q| q.seq > e.seq) else { continue };
        let qb = rec.qpoints.iter().rev().find(|q| q.seq < e.seq);
        let sig = |what: &str| json!({"what": what, "keep_processes": keep, "ending": ending});
        let row = q.rows.iter().find(|p| p.pid == e.pid);
        if !keep {
            if let Some(r) = row {
                let what = if r.state == "<no proc row>" { "task_rows_left" } else { "process_row_left" };
                v.push(Violation::new("C17", "rows_left_after_end", sig(what), format!("process {} ended ({}) at seq {} but at quiescent point {} the store still holds {} with {} task rows", e.pid, ending, e.seq, q.idx, what, r.tasks.len())));
                break;
            }
        } else {
            match row {
                None => {
                    v.push(Violation::new("C17", "rows_missing_with_keep", sig("process_row"), format!("keep_processes: process {} ended ({}) but its rows are gone at quiescent point {}", e.pid, ending, q.idx)));
                    break;
                }
                Some(r) => {
                    if !is_terminal_state(&r.state) || r.state != ending {
                        v.push(Violation::new("C17", "kept_row_not_terminal", sig("process_state"), format!("keep_processes: process {} ended {} but its row says {}", e.pid, ending, r.state)));
                        break;
                    }
                    if ending != "error" {
                        if let Some(t) = r.tasks.iter().find(|t| !is_terminal_state(&t.state)) {
                            v.push(Violation::new("C17", "kept_row_not_terminal", sig("task_state"), format!("keep_processes: process {} ended {} but task row {} ({} {}) is {}", e.pid, ending, t.tid, t.kind, t.nid, t.state)));
                            break;
                        }
                    }
                    // nothing of the process was lost: the task rows before the end are still there
                    if let Some(qb) = qb {
                        if let Some(rb) = qb.rows.iter().find(|p| p.pid == e.pid) {
                            if let Some(t) = rb.tasks.iter().find(|t| !r.tasks.iter().any(|x| x.tid == t.tid)) {
                                v.push(Violation::new("C17", "rows_missing_with_keep", sig("task_row"), format!("keep_processes: task row {} of {} existed before the end and is gone afterwards", t.tid, e.pid)));
                                break;
                            }
                        }
                    }
                }
            }
        }
        // rows of the other processes are untouched by this ending
        if let Some(qb) = qb {
            // only when no action on another process happened in between
            let others_acted = rec.actions.iter().any(|a| a.seq0 > qb.seq && a.seq1 < q.seq && a.pid != e.pid) || rec.started.iter().any(|_| false);
            if !others_acted {
                for pb in qb.rows.iter().filter(|p| p.pid != e.pid) {
                    if !is_terminal_state(&pb.state) {
                        other_running = true;
                    }
                    match q.rows.iter().find(|p| p.pid == pb.pid) {
                        None => {
                            // it may have ended itself in the same interval
                            if !ends.iter().any(|x| x.pid == pb.pid && x.seq > qb.seq && x.seq < q.seq) {
                                v.push(Violation::new("C17", "foreign_rows_deleted", sig("process_row"), format!("the end of {} removed the rows of process {}", e.pid, pb.pid)));
                            }
                        }
                        Some(pa) => {
                            let ended_too = ends.iter().any(|x| x.pid == pb.pid && x.seq > qb.seq && x.seq < q.seq);
                            if !ended_too {
                                let tb: BTreeSet<&String> = pb.tasks.iter().map(|t| &t.tid).collect();
                                let ta: BTreeSet<&String> = pa.tasks.iter().map(|t| &t.tid).collect();
                                if !tb.is_subset(&ta) {
                                    v.push(Violation::new("C17", "foreign_rows_deleted", sig("task_row"), format!("the end of {} removed task rows of process {}: {:?}", e.pid, pb.pid, tb.difference(&ta).collect::<Vec<_>>())));
                                }
                            }
                        }
                    }
                    if !v.is_empty() {
                        break;
                    }
                }
            }
            // message records are never deleted
            let mb: BTreeSet<&String> = qb.msg_rows.iter().map(|m| &m.id).collect();
            let ma: BTreeSet<&String> = q.msg_rows.iter().map(|m| &m.id).collect();
            if !mb.is_subset(&ma) && v.is_empty() {
                v.push(Violation::new("C17", "message_records_deleted", sig("messages"), format!("the end of {} removed {} message records", e.pid, mb.difference(&ma).count())));
            }
        }
        if !v.is_empty() {
            break;
        }
        // every further action on the finished process is refused (default configuration)
        for a in rec.actions.iter().filter(|a| a.pid == e.pid && a.seq0 > q.seq) {
            ctx.count("probe.late_action", 1);
            if !keep && a.ok {
                v.push(Violation::new("C17", "action_on_removed_process_accepted", json!({"action": a.action, "ending": ending}), format!("process {} ended ({}) and was removed, yet `{}` on its task {} was accepted", e.pid, ending, a.action, a.tid)));
                break;
            }
        }
        if !v.is_empty() {
            break;
        }
    }
    if other_running {
        ctx.count("probe.other_process_running_at_removal", 1);
    }
    // model removal
    if v.is_empty() {
        let g = side.lock().unwrap();
        let (e0, e1, m0, m1, res) = (&g.0, &g.1, &g.2, &g.3, &g.4);
        let want_e: Vec<&(String, String)> = e0.iter().filter(|e| e.1 != rm_model).collect();
        let got_e: Vec<&(String, String)> = e1.iter().collect();
        let had = e0.iter().any(|e| e.1 == rm_model);
        if had {
            ctx.count("probe.model_with_events_removed", 1);
        }
        if want_e != got_e {
            v.push(Violation::new("C17", "model_removal_wrong_events", json!({"removed_too_many": got_e.len() < want_e.len()}), format!("rm({}) -> {}: events before {:?}, after {:?}, expected {:?}", rm_model, res, e0, e1, want_e)));
        } else {
            let want_m: Vec<&String> = m0.iter().filter(|m| **m != rm_model).collect();
            let got_m: Vec<&String> = m1.iter().collect();
            if want_m != got_m {
                v.push(Violation::new("C17", "model_removal_wrong_models", json!({}), format!("rm({}) -> {}: models before {:?}, after {:?}", rm_model, res, m0, m1)));
            }
        }
    }
    out.violations = v;
    out.nontrivial = endings.len() >= 2 && other_running;
    out.outcome_hash = outcome_hash(&rec);
    out.sample = basic_sample(&sc, &rec, json!({"keep_processes": keep, "store": sc.engine.store, "endings": endings, "removed_model": rm_model}));
    let _ = completer_for;
    out
}
