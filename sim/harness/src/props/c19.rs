//! C19 — Timeout rules fire once, never early, and only for open tasks.
use super::common::*;
use crate::checks::*;
use crate::gen::*;
use crate::model::*;
use crate::obs::*;
use crate::scenario::*;
use serde_json::json;
use std::collections::BTreeMap;

pub fn def() -> CheckDef {
    CheckDef {
        id: "C19",
        title: "Timeout rules fire once, never early, and only for open tasks",
        case,
        rule: "case = a step with one timed interrupt (1..3 rules in s/m/h/d on the act, and in a third of the cases rules on the step as well) x tick_interval_secs in {1,2,15,60} x tick phase (seeded clock offset before the engine is built) x the simulated instant at which the client answers the act (before / around / after each limit, or never) x optional stalled ticks (forward clock jumps of several periods) x seeded schedule. The discrete-event clock jumps from tick to tick. RefTimeline: per task instance and rule at most one firing; never before start_time + limit; fired by the quiescent point after the first tick at/after the limit while the task is open; no firing once the task is terminal; the timed task's state is unchanged by a firing. non-trivial = a limit elapsed while its task was open; distinct = distinct (scenario hash, schedule hash, fault hash)",
        level: "exploration",
        assumptions: &["monotone simulated clock; the engine compares whole milliseconds, so a tick within 1 ms of the limit is accepted either way", "the timed process stays cached (eviction is C13's subject)", "no storage errors are injected"],
        probes: &["probe.answered_by_caught_error", "probe.timed_act_is_a_call", "probe.rule_fired", "probe.answered_before_limit", "probe.two_rules_fired_at_different_ticks", "probe.stalled_tick", "probe.step_level_rule", "probe.tick_on_limit_ms", "probe.never_answered"],
        quick_cases: 3000,
        no_shrink: &[],
    }
}

fn limit_secs(on: &str) -> i64 {
    let (n, u) = on.split_at(on.len() - 1);
    let n: i64 = n.parse().unwrap_or(0);
    match u {
        "s" => n,
        "m" => n * 60,
        "h" => n * 3600,
        "d" => n * 86400,
        _ => 0,
    }
}

fn rule_steps(prefix: &str, on: &str) -> Vec<MStep> {
    vec![MStep { id: format!("{}_{}", prefix, on), acts: vec![MAct { id: format!("{}_{}_m", prefix, on), key: format!("fired:{}:{}", prefix, on), kind: ActKind::Msg, ..Default::default() }], ..Default::default() }]
}

pub fn case(ctx: &mut CaseCtx) -> CaseOut {
    let mut gr = vsim::rng::Rng::new(vsim::rng::mix(&[ctx.case_seed, 0xc19]));
    let tick = *gr.pick(&[1i64, 1, 2, 15, 60]);
    let choices: Vec<&str> = if tick <= 2 { vec!["2s", "3s", "5s", "9s", "1m"] } else { vec!["30s", "1m", "2m", "5m", "1h", "1d"] };
    let nrules = 1 + gr.below(3) as usize;
    let mut ons: Vec<String> = vec![];
    while ons.len() < nrules {
        let o = gr.pick(&choices).to_string();
        if !ons.contains(&o) {
            ons.push(o);
        }
    }
    let step_rules: Vec<String> = if gr.below(3) == 0 { vec![gr.pick(&choices).to_string()] } else { vec![] };
    let max_l = ons.iter().chain(step_rules.iter()).map(|o| limit_secs(o)).max().unwrap_or(1);
    // when does the client answer? (seconds of simulated time after start; None = never)
    let answer_at: Option<i64> = match gr.below(6) {
        0 => None,
        1 => Some(0),
        2 => Some(gr.range(0, max_l)),
        3 => { let o: String = gr.pick(&ons[..]).clone(); Some(limit_secs(&o) + gr.range(-1, 1)) }
        _ => Some(gr.range(0, 2 * max_l + 2 * tick)),
    };
    let pre_jump = gr.range(0, tick * 1_000_000);
    let stall = if gr.below(4) == 0 { Some((gr.range(1, 6) as usize, gr.range(2, 5) * tick * 1_000_000 + gr.range(0, 999_999))) } else { None };
    let knobs = random_knobs(&mut gr);
    // the timed act: an interrupt, or (a quarter) a call of a sub-workflow whose only act is the interrupt
    let timed_is_call = gr.below(4) == 0;
    // the answer: complete, or (a fifth, interrupts only) an error that the catch of the enclosing step takes - the
    // timed act is then closed (error) while the process goes on in the catch steps, which wait for a client
    let answer_is_error = !timed_is_call && gr.below(5) == 0;
    let sc = ctx.scenario(|_| {
        let mut sc = Scenario::default();
        let kind = if timed_is_call { ActKind::Subflow { to: "child".into(), options: BTreeMap::new() } } else { ActKind::Irq };
        let act = MAct { id: "timed".into(), key: "kt".into(), kind, timeouts: ons.iter().map(|o| MTimeout { on: o.clone(), steps: rule_steps("act", o) }).collect(), ..Default::default() };
        let mut step = MStep { id: "s1".into(), acts: vec![act], timeouts: step_rules.iter().map(|o| MTimeout { on: o.clone(), steps: rule_steps("step", o) }).collect(), ..Default::default() };
        if answer_is_error {
            step.catches.push(MCatch { on: None, steps: vec![MStep { id: "caught".into(), acts: vec![MAct { id: "caught_a".into(), key: "k_after_catch".into(), kind: ActKind::Irq, ..Default::default() }], ..Default::default() }] });
        }
        sc.models.push(MWorkflow { id: "m".into(), steps: vec![step, MStep { id: "s2".into(), ..Default::default() }], ..Default::default() });
        if timed_is_call {
            sc.models.push(MWorkflow { id: "child".into(), steps: vec![MStep { id: "cs1".into(), acts: vec![MAct { id: "child_irq".into(), key: "kt".into(), kind: ActKind::Irq, ..Default::default() }], ..Default::default() }], ..Default::default() });
        }
        sc.starts.push(Start { model: "m".into(), vars: serde_json::Map::new(), pid: Some("p1".into()), at_q: 0 });
        sc.engine.keep_processes = true;
        sc.engine.tick_interval_secs = tick;
        sc.pre_jump_us = pre_jump;
        sc.knobs = knobs.clone();
        if let Some((q, us)) = stall {
            sc.faults.push(FaultOp { at_q: q, kind: "jump".into(), arg: us });
        }
        sc.capture = true;
        sc
    });
    // the oracle reads the rules and the tick interval from the scenario (a replay file may hold a
    // minimised scenario), not from the generator's variables
    let tick = sc.engine.tick_interval_secs.max(1);
    let (ons, step_rules): (Vec<String>, Vec<String>) = match sc.models.first().and_then(|m| m.steps.first()) {
        Some(s) => (s.acts.first().map(|a| a.timeouts.iter().map(|t| t.on.clone()).collect()).unwrap_or_default(), s.timeouts.iter().map(|t| t.on.clone()).collect()),
        None => (vec![], vec![]),
    };
    // a firing is observed through the first step of the rule (a rule without steps is unobservable)
    let mut first_step: BTreeMap<(String, String), String> = BTreeMap::new();
    if let Some(s) = sc.models.first().and_then(|m| m.steps.first()) {
        for t in &s.timeouts {
            if let Some(fs) = t.steps.first() {
                first_step.insert(("step".into(), t.on.clone()), fs.id.clone());
            }
        }
        if let Some(a) = s.acts.first() {
            for t in &a.timeouts {
                if let Some(fs) = t.steps.first() {
                    first_step.insert(("act".into(), t.on.clone()), fs.id.clone());
                }
            }
        }
    }
    let stall = sc.faults.iter().find(|f| f.kind == "jump").map(|f| (f.at_q, f.arg));
    let horizon_ticks = ((2 * max_l + 3 * tick) / tick + 6).min(400) as usize;
    let ans = answer_at;
    // read from the scenario (replays): the step's catch tells that the answer is an error
    let err_answer = sc.models.first().and_then(|m| m.steps.first()).map(|s| !s.catches.is_empty()).unwrap_or(false);
    let is_call = sc.models.len() > 1;
    if err_answer {
        ctx.count("probe.answered_by_caught_error", 1);
    }
    if is_call {
        ctx.count("probe.timed_act_is_a_call", 1);
    }
    let rec = ctx.run_with(&sc, move |w| {
        if let Err(e) = w.deploy_all() {
            w.rec.lock().unwrap().rec.panics.push(format!("deploy: {e}"));
            return;
        }
        let starts = w.sc.starts.clone();
        for s in &starts {
            w.start(s);
        }
        let t_start = vsim::peek_now_us();
        let mut answered = false;
        let mut ticks = 0;
        loop {
            if w.settle() == vsim::Outcome::StepCap {
                break;
            }
            w.capture("");
            w.qidx += 1;
            // stalled node: a forward jump of several periods
            let faults: Vec<FaultOp> = w.sc.faults.iter().filter(|f| f.at_q == w.qidx && f.kind == "jump").cloned().collect();
            for f in faults {
                vsim::jump_us(f.arg);
                vsim::log(&format!("JUMP {}us", f.arg));
                let mut g = w.rec.lock().unwrap();
                let qidx = w.qidx;
                g.rec.ops.push(OpRec { seq: vsim::seq(), qidx, op: "jump".into(), detail: f.arg.to_string() });
                g.rec.count("fault.jump");
            }
            let now = vsim::peek_now_us();
            if !answered {
                if let Some(a) = ans {
                    if now - t_start >= a * 1_000_000 {
                        let oa = {
                            let mut g = w.rec.lock().unwrap();
                            let i = g.open.iter().position(|o| o.key == "kt");
                            i.map(|i| g.open.remove(i))
                        };
                        if let Some(oa) = oa {
                            answered = true;
                            let engine = w.engine().clone();
                            let mut o = serde_json::Map::new();
                            if err_answer {
                                o.insert("ecode".into(), json!("e1"));
                                o.insert("message".into(), json!("boom"));
                            }
                            crate::world::do_action(&engine, &w.rec, &oa.pid, &oa.tid, if err_answer { "error" } else { "complete" }, &o, &oa.key, "client", true);
                            continue;
                        }
                    }
                }
            }
            ticks += 1;
            if ticks > horizon_ticks {
                break;
            }
            if !w.tick() {
                break;
            }
        }
    });
    let mut out = CaseOut { scenario: Some(sc.clone()), ..Default::default() };
    if discard_if_broken(&rec, &mut out) {
        return out;
    }
    let mut v: Vec<Violation> = vec![];
    if answer_at.is_none() {
        ctx.count("probe.never_answered", 1);
    }
    if stall.is_some() && rec.counters.get("fault.jump").copied().unwrap_or(0) > 0 {
        ctx.count("probe.stalled_tick", 1);
    }
    if !step_rules.is_empty() {
        ctx.count("probe.step_level_rule", 1);
    }
    // tick instants (ms) and the quiescent point that follows each
    let ticks_ms: Vec<(i64, u64)> = rec.ops.iter().filter(|o| o.op == "tick").map(|o| (o.detail.parse::<i64>().unwrap_or(0).div_euclid(1000), o.seq)).collect();
    let Some(qlast) = rec.qpoints.last() else { return out };
    let Some(live) = qlast.live.iter().find(|p| p.pid == "p1") else {
        out.discarded = Some("process not cached at the end".into());
        return out;
    };
    let mut elapsed_open = false;
    let mut fired_ticks: Vec<i64> = vec![];
    for (owner_nid, prefix, rules) in [("timed", "act", &ons), ("s1", "step", &step_rules)] {
        let Some(t) = live.tasks.iter().find(|t| t.nid == owner_nid) else { continue };
        let t0_ms = t.start_time;
        // closed = the last state write of the task is terminal (a step revived by its catch is open again)
        let term: Option<&TransRec> = rec.trans.iter().filter(|x| x.tid == t.tid).last().filter(|x| is_terminal_state(&x.new));
        let term_ms = term.map(|x| x.now_us.div_euclid(1000));
        for on in rules.iter() {
            let l_ms = limit_secs(on) * 1000;
            let Some(step_id) = first_step.get(&(prefix.to_string(), on.clone())).cloned() else { continue };
            let firings: Vec<&TransRec> = rec.trans.iter().filter(|x| x.nid == step_id && x.old == "none" && !x.pure_write).collect();
            let sig = |what: &str| json!({"owner": prefix, "what": what, "rules_on_task": rules.len().min(3), "timed_act": if is_call { "call" } else { "irq" }});
            if firings.len() > 1 {
                v.push(Violation::new("C19", "rule_fired_more_than_once", sig("count"), format!("rule {} of {} {} fired {} times", on, prefix, owner_nid, firings.len())));
                break;
            }
            if let Some(f) = firings.first() {
                ctx.count("probe.rule_fired", 1);
                let f_ms = f.now_us.div_euclid(1000);
                fired_ticks.push(f_ms);
                if f_ms - t0_ms < l_ms - 1 {
                    v.push(Violation::new("C19", "rule_fired_early", sig("early"), format!("rule {} of {} {} fired {} ms after the task was created (limit {} ms)", on, prefix, owner_nid, f_ms - t0_ms, l_ms)));
                    break;
                }
                if let Some(tm) = term {
                    if f.seq > tm.seq {
                        v.push(Violation::new("C19", "rule_fired_after_task_closed", sig("after_close"), format!("rule {} of {} {} fired at seq {} after the task had become {} at seq {}", on, prefix, owner_nid, f.seq, tm.new, tm.seq)));
                        break;
                    }
                }
                // the firing does not close the timed task: its state right before and after the tick's work
                let before = rec.qpoints.iter().rev().find(|q| q.seq < f.seq).and_then(|q| q.live.iter().find(|p| p.pid == "p1")).and_then(|p| p.tasks.iter().find(|x| x.tid == t.tid)).map(|x| x.state.clone());
                let after = rec.qpoints.iter().find(|q| q.seq > f.seq).and_then(|q| q.live.iter().find(|p| p.pid == "p1")).and_then(|p| p.tasks.iter().find(|x| x.tid == t.tid)).map(|x| x.state.clone());
                let acted = rec.actions.iter().any(|a| a.ok && a.seq0 > f.seq.saturating_sub(400) && rec.qpoints.iter().find(|q| q.seq > f.seq).map(|q| a.seq0 < q.seq).unwrap_or(false));
                if let (Some(b), Some(a)) = (&before, &after) {
                    if b != a && !acted {
                        v.push(Violation::new("C19", "firing_changed_timed_task", sig("state"), format!("rule {} of {} {} fired and the timed task went {} -> {} without a client action", on, prefix, owner_nid, b, a)));
                        break;
                    }
                }
            }
            // must have fired: the first tick at/after the limit while the task was open
            let due = ticks_ms.iter().find(|(ms, _)| ms - t0_ms >= l_ms + 1);
            if let Some((ms, seq)) = due {
                let open_then = term.map(|tm| tm.seq > *seq + 0 && term_ms.map(|x| x > *ms).unwrap_or(true)).unwrap_or(true);
                // the task must have been open during the whole tick: closed strictly after the next quiescent point
                let next_q = rec.qpoints.iter().find(|q| q.seq > *seq);
                let still_open_after = match (term, next_q) {
                    (None, _) => true,
                    (Some(tm), Some(q)) => tm.seq > q.seq,
                    (Some(_), None) => false,
                };
                if open_then && still_open_after {
                    elapsed_open = true;
                    if (ms - t0_ms - l_ms).abs() <= 1 {
                        ctx.count("probe.tick_on_limit_ms", 1);
                    }
                    if firings.is_empty() && next_q.is_some() {
                        v.push(Violation::new("C19", "rule_never_fired", sig("missing"), format!("rule {} of {} {}: the task was open at the tick {} ms after its creation (limit {} ms) but the rule had not fired by the following quiescent point", on, prefix, owner_nid, ms - t0_ms, l_ms)));
                        break;
                    }
                }
            } else if firings.is_empty() {
                // no tick after the limit within the horizon, or answered before
            }
            if let (Some(tms), true) = (term_ms, firings.is_empty()) {
                if tms - t0_ms < l_ms {
                    ctx.count("probe.answered_before_limit", 1);
                }
            }
        }
        if !v.is_empty() {
            break;
        }
    }
    fired_ticks.sort();
    fired_ticks.dedup();
    if fired_ticks.len() >= 2 {
        ctx.count("probe.two_rules_fired_at_different_ticks", 1);
    }
    let _: BTreeMap<String, i64> = BTreeMap::new();
    out.violations = v;
    out.nontrivial = elapsed_open;
    out.outcome_hash = outcome_hash(&rec);
    out.sample = basic_sample(&sc, &rec, json!({"tick_interval_secs": tick, "act_rules": ons, "step_rules": step_rules, "answer_at_s": answer_at, "ticks": ticks_ms.len(), "stall": stall.map(|s| s.1), "simulated_s": rec.sim_time_us / 1_000_000}));
    let _ = completer_for;
    out
}
