//! C07 — Data flow: inputs, act outputs and workflow outputs follow the scoping rules.
use super::common::*;
use crate::checks::*;
use crate::gen::*;
use crate::model::*;
use crate::obs::*;
use crate::scenario::*;
use serde_json::{json, Map, Value};
use std::collections::BTreeMap;

pub fn def() -> CheckDef {
    CheckDef {
        id: "C07",
        title: "Data flow: inputs, act outputs and workflow outputs follow the scoping rules",
        case,
        rule: "case = 1..3 concurrent processes of a generated model over the set/code/irq fragment: names a,b declared by the workflow (inputs, also the declared outputs), name y declared by one step; writers (set, script $set, script return value, client options of complete/submit/skip/remove with the declared output, the other workflow name, an undeclared and a __private key) and readers (msg params templates, step/branch conditions, terminal outputs) are placed along the flow; every process gets its own start valuation and its own client-supplied values; seeded schedule interleaves the processes. RefEnv (a map per declaring scope) predicts every observed value. non-trivial = at least two writes of different kinds were observed by a later reader; distinct = distinct (scenario hash, schedule hash)",
        level: "exploration",
        assumptions: &["every name is declared in at most one enclosing scope (the property's precondition)", "a read of a name that no scope in the reader's ancestry holds (the step-scoped y from outside its step, the start value own<j> of another process) must yield no value", "the cut of options to declared outputs is only judged for acts that declare outputs", "monotone simulated clock"],
        probes: &["probe.set_write", "probe.script_set", "probe.script_return", "probe.client_output", "probe.branch_on_written_value", "probe.step_scope", "probe.multi_process", "probe.private_key", "probe.finished_by_skip_submit_remove"],
        quick_cases: 3000,
        no_shrink: &["models", "starts"],
    }
}

#[derive(Clone, Debug)]
enum Op {
    Set(String, i64),
    ScriptSet(String, String, i64), // name := other + k
    ScriptReturn(String, i64),
    Irq { key: String, out: String, action: String },
    Reader { key: String },
    Branch { if_id: String, else_id: String, cond: Cond, k_if: String, k_else: String },
}

fn gen_ops(rng: &mut vsim::rng::Rng) -> Vec<Op> {
    let n = 3 + rng.below(6);
    let names = ["a", "b"];
    let mut ops = vec![];
    for i in 0..n {
        let nm = rng.pick(&names).to_string();
        let op = match rng.below(7) {
            0 => Op::Set(nm, rng.range(0, 9)),
            1 => Op::ScriptSet(nm, rng.pick(&names).to_string(), rng.range(1, 5)),
            2 => Op::ScriptReturn(nm, rng.range(10, 19)),
            3 | 4 => Op::Irq { key: format!("k{}", i), out: nm, action: rng.pick(&["complete", "complete", "complete", "submit", "skip", "remove"]).to_string() },
            5 => Op::Reader { key: format!("r{}", i) },
            _ => Op::Branch {
                if_id: format!("bi{}", i),
                else_id: format!("be{}", i),
                cond: Cond::Cmp(Expr::Var(nm), rng.pick(&["<", "<=", "==", "!=", ">=", ">"]).to_string(), Expr::Const(rng.range(0, 12))),
                k_if: format!("took_if{}", i),
                k_else: format!("took_else{}", i),
            },
        };
        ops.push(op);
    }
    ops.push(Op::Reader { key: "r_last".into() });
    ops
}

/// reads a name that may not exist for the reader without failing (a plain `{{ y }}` of an unknown name is an error)
fn probe_expr(name: &str) -> String {
    format!("{{{{ typeof {name} === \"undefined\" ? null : {name} }}}}")
}

fn reader_act(id: &str, key: &str) -> MAct {
    MAct { id: id.into(), key: key.into(), kind: ActKind::Msg, params: json!({"seen_a": "{{ a }}", "seen_b": "{{ b }}", "seen_y": probe_expr("y"), "seen_own1": probe_expr("own1"), "seen_own2": probe_expr("own2"), "seen_own3": probe_expr("own3")}), ..Default::default() }
}

fn build_model(ops: &[Op], step_scope: bool) -> MWorkflow {
    let mut steps: Vec<MStep> = vec![];
    let mut cur: Vec<MAct> = vec![];
    let mut n = 0;
    let mut flush = |cur: &mut Vec<MAct>, steps: &mut Vec<MStep>| {
        if !cur.is_empty() {
            let id = format!("s{}", steps.len() + 1);
            steps.push(MStep { id, acts: std::mem::take(cur), ..Default::default() });
        }
    };
    for op in ops {
        n += 1;
        let id = format!("x{}", n);
        match op {
            Op::Set(nm, v) => {
                let mut kv = BTreeMap::new();
                kv.insert(nm.clone(), json!(v));
                cur.push(MAct { id, kind: ActKind::Set(kv), ..Default::default() });
            }
            Op::ScriptSet(nm, other, k) => cur.push(MAct { id, kind: ActKind::Code(format!("$set(\"{nm}\", {other} + {k});")), ..Default::default() }),
            Op::ScriptReturn(nm, v) => cur.push(MAct { id, kind: ActKind::Code(format!("return {{ {nm}: {v} }};")), ..Default::default() }),
            Op::Irq { key, out, action } => {
                cur.push(MAct { id, key: key.clone(), kind: ActKind::Irq, outputs: vec![out.clone()], ..Default::default() });
                // an act finished by `skip`, `remove` or `submit` ends its step without running the acts that
                // follow in it (control flow, not this property's subject): such an interrupt is the last act of its step
                if action != "complete" {
                    flush(&mut cur, &mut steps);
                }
            }
            Op::Reader { key } => cur.push(reader_act(&id, key)),
            Op::Branch { if_id, else_id, cond, k_if, k_else } => {
                flush(&mut cur, &mut steps);
                let sid = format!("s{}", steps.len() + 1);
                let mk = |bid: &str, key: &str| MStep { id: format!("{}_s", bid), acts: vec![MAct { id: format!("{}_m", bid), key: key.into(), kind: ActKind::Msg, ..Default::default() }], ..Default::default() };
                steps.push(MStep {
                    id: sid,
                    branches: vec![
                        MBranch { id: if_id.clone(), kind: BranchKind::If(cond.clone()), steps: vec![mk(if_id, k_if)] },
                        MBranch { id: else_id.clone(), kind: BranchKind::Else, steps: vec![mk(else_id, k_else)] },
                    ],
                    ..Default::default()
                });
            }
        }
        if cur.len() >= 3 {
            flush(&mut cur, &mut steps);
        }
    }
    flush(&mut cur, &mut steps);
    if step_scope {
        // a step that declares its own name y, writes it and reads it; a later step reads y as well
        let mut inputs = BTreeMap::new();
        inputs.insert("y".to_string(), json!(0));
        let mut kv = BTreeMap::new();
        kv.insert("y".to_string(), json!(77));
        steps.insert(
            0,
            MStep {
                id: "s_scope".into(),
                inputs,
                acts: vec![
                    MAct { id: "sy1".into(), kind: ActKind::Set(kv), ..Default::default() },
                    MAct { id: "sy2".into(), key: "r_scope".into(), kind: ActKind::Msg, params: json!({"seen_y": "{{ y }}"}), ..Default::default() },
                ],
                ..Default::default()
            },
        );
    }
    let mut inputs = BTreeMap::new();
    inputs.insert("a".to_string(), json!(0));
    inputs.insert("b".to_string(), json!(0));
    let mut outputs = BTreeMap::new();
    outputs.insert("a".to_string(), None);
    outputs.insert("b".to_string(), None);
    MWorkflow { id: "m".into(), inputs, outputs, steps, ..Default::default() }
}

#[derive(Default, Debug)]
struct Expectation {
    readers: BTreeMap<String, (i64, i64)>,
    markers_present: Vec<String>,
    markers_absent: Vec<String>,
    final_a: i64,
    final_b: i64,
}

fn ref_env(ops: &[Op], a0: i64, b0: i64, supplied: &BTreeMap<String, i64>) -> Expectation {
    let mut env: BTreeMap<String, i64> = BTreeMap::new();
    env.insert("a".into(), a0);
    env.insert("b".into(), b0);
    let mut e = Expectation::default();
    for op in ops {
        match op {
            Op::Set(n, v) => {
                env.insert(n.clone(), *v);
            }
            Op::ScriptSet(n, o, k) => {
                let v = env[o] + k;
                env.insert(n.clone(), v);
            }
            Op::ScriptReturn(n, v) => {
                env.insert(n.clone(), *v);
            }
            Op::Irq { key, out, .. } => {
                // whatever action finishes the act (complete, submit, skip, remove): its options are cut down to the
                // declared outputs, which update the declaring scope; the other name in the options changes nothing
                env.insert(out.clone(), supplied[key]);
            }
            Op::Reader { key } => {
                e.readers.insert(key.clone(), (env["a"], env["b"]));
            }
            Op::Branch { cond, k_if, k_else, .. } => {
                let held = cond.eval(&|v| env.get(v).copied()).unwrap_or(false);
                if held {
                    e.markers_present.push(k_if.clone());
                    e.markers_absent.push(k_else.clone());
                } else {
                    e.markers_present.push(k_else.clone());
                    e.markers_absent.push(k_if.clone());
                }
            }
        }
    }
    e.final_a = env["a"];
    e.final_b = env["b"];
    e
}

pub fn case(ctx: &mut CaseCtx) -> CaseOut {
    // the generator's artefacts (ops, per-process values) are re-derived from the case stream on replay
    let mut gr = vsim::rng::Rng::new(vsim::rng::mix(&[ctx.case_seed, 0xc07]));
    let ops = gen_ops(&mut gr);
    let step_scope = gr.below(3) == 0;
    let nproc = 1 + gr.below(3) as usize;
    let mut starts = vec![];
    let mut per_proc: Vec<(i64, i64, BTreeMap<String, i64>)> = vec![];
    for p in 0..nproc {
        let a0 = gr.range(0, 9);
        let b0 = gr.range(0, 9);
        let mut supplied = BTreeMap::new();
        for op in &ops {
            if let Op::Irq { key, .. } = op {
                supplied.insert(key.clone(), 100 * (p as i64 + 1) + gr.range(0, 50));
            }
        }
        let mut vars = Map::new();
        vars.insert("a".into(), json!(a0));
        vars.insert("b".into(), json!(b0));
        // a start value under a name that only this process has (no scope of any other process declares it)
        vars.insert(format!("own{}", p + 1), json!(7000 + 100 * (p as i64 + 1) + a0));
        starts.push(Start { model: "m".into(), vars, pid: Some(format!("p{}", p + 1)), at_q: 0 });
        per_proc.push((a0, b0, supplied));
    }
    // the per-process values are supplied by this check's own driver, at quiescent points
    let mode = "sequential".to_string();
    let _ = gr.below(3);
    let knobs = random_knobs(&mut gr);
    let sc = ctx.scenario(|_| {
        let mut sc = Scenario::default();
        sc.models.push(build_model(&ops, step_scope));
        sc.starts = starts.clone();
        sc.client.mode = mode.clone();
        sc.client.order = "random".into();
        sc.engine.keep_processes = true;
        sc.knobs = knobs.clone();
        sc.capture = true;
        sc
    });
    // the client supplies per-process values: drive with a body that answers from the table
    let table = per_proc.clone();
    let actions: BTreeMap<String, String> = ops.iter().filter_map(|o| if let Op::Irq { key, action, .. } = o { Some((key.clone(), action.clone())) } else { None }).collect();
    for a in actions.values() {
        if a != "complete" {
            ctx.count("probe.finished_by_skip_submit_remove", 1);
            break;
        }
    }
    let rec = ctx.run_with(&sc, move |w| {
        if let Err(e) = w.deploy_all() {
            w.rec.lock().unwrap().rec.panics.push(format!("deploy: {e}"));
            return;
        }
        let starts = w.sc.starts.clone();
        for s in &starts {
            w.start(s);
        }
        let mut guard = 0;
        loop {
            if w.settle() == vsim::Outcome::StepCap {
                break;
            }
            w.capture("");
            w.qidx += 1;
            guard += 1;
            if guard > 400 {
                break;
            }
            let n = w.rec.lock().unwrap().open.len();
            if n == 0 {
                break;
            }
            let i = vsim::choose(vsim::site::CLIENT, n as u32) as usize;
            let oa = w.rec.lock().unwrap().open.remove(i);
            let pi: usize = oa.pid.trim_start_matches('p').parse::<usize>().unwrap_or(1) - 1;
            let mut o = Map::new();
            if let Some(t) = table.get(pi) {
                if let Some(v) = t.2.get(&oa.key) {
                    // the declared output, an undeclared key and a private key
                    let act_out = w.sc.models[0].clone();
                    let mut name = String::new();
                    act_out.visit_acts(&mut |a| {
                        if a.key == oa.key {
                            name = a.outputs.first().cloned().unwrap_or_default();
                        }
                    });
                    // a name that the workflow declares but this act does not list as its output
                    let other = if name == "a" { "b" } else { "a" };
                    o.insert(other.to_string(), json!(9000 + v));
                    o.insert(name, json!(v));
                    o.insert("zz_undeclared".into(), json!(v + 1));
                    o.insert("__private".into(), json!(v + 2));
                }
            }
            let action = actions.get(&oa.key).cloned().unwrap_or_else(|| "complete".to_string());
            let engine = w.engine().clone();
            crate::world::do_action(&engine, &w.rec, &oa.pid, &oa.tid, &action, &o, &oa.key, "client", true);
        }
    });
    let mut out = CaseOut { scenario: Some(sc.clone()), ..Default::default() };
    if discard_if_broken(&rec, &mut out) {
        return out;
    }
    let mut v: Vec<Violation> = vec![];
    let kinds: Vec<&str> = ops
        .iter()
        .map(|o| match o {
            Op::Set(..) => "set",
            Op::ScriptSet(..) => "script_set",
            Op::ScriptReturn(..) => "script_return",
            Op::Irq { .. } => "client_output",
            Op::Reader { .. } => "reader",
            Op::Branch { .. } => "branch",
        })
        .collect();
    for k in ["set", "script_set", "script_return", "client_output"] {
        if kinds.contains(&k) {
            ctx.count(&format!("probe.{}", if k == "set" { "set_write" } else { k }), 1);
        }
    }
    if kinds.contains(&"branch") {
        ctx.count("probe.branch_on_written_value", 1);
    }
    if step_scope {
        ctx.count("probe.step_scope", 1);
    }
    if nproc > 1 {
        ctx.count("probe.multi_process", 1);
    }
    for (pi, (a0, b0, supplied)) in per_proc.iter().enumerate() {
        let pid = format!("p{}", pi + 1);
        let exp = ref_env(&ops, *a0, *b0, supplied);
        let msgs: Vec<&MsgRec> = rec.msgs.iter().filter(|m| m.via == "message" && m.pid == pid).collect();
        let done = rec.msgs.iter().find(|m| m.via == "complete" && m.pid == pid);
        if done.is_none() {
            if !rec.step_cap_hit {
                v.push(Violation::new("C07", "process_did_not_complete", json!({}), format!("process {} did not complete although every interrupt was answered", pid)));
            }
            break;
        }
        // readers
        for (key, (ea, eb)) in &exp.readers {
            let Some(m) = msgs.iter().find(|m| &m.key == key) else {
                v.push(Violation::new("C07", "reader_message_missing", json!({}), format!("process {}: reader message {} was not delivered", pid, key)));
                break;
            };
            let sa = m.inputs.get("params").and_then(|p| p.get("seen_a")).cloned().unwrap_or(Value::Null);
            let sb = m.inputs.get("params").and_then(|p| p.get("seen_b")).cloned().unwrap_or(Value::Null);
            if sa != json!(ea) || sb != json!(eb) {
                // which kind of write was the last one before this reader?
                let idx = ops.iter().position(|o| matches!(o, Op::Reader { key: k } if k == key)).unwrap_or(0);
                let last_writer = kinds[..idx].iter().rev().find(|k| **k != "reader" && **k != "branch").cloned().unwrap_or("start_value");
                v.push(Violation::new("C07", "reader_saw_wrong_value", json!({"last_writer": last_writer, "other_process_value": per_proc.iter().enumerate().any(|(j, o)| j != pi && o.2.values().any(|x| json!(x) == sa || json!(x) == sb))}), format!("process {}: reader {} saw a={} b={}, the scope model says a={} b={}", pid, key, sa, sb, ea, eb)));
                break;
            }
        }
        // names outside the reader's scope chain: y belongs to step s_scope, own<j> to process j.  Nothing the
        // reader's own ancestry holds defines them, so no value may show up (never reaches a scope outside the
        // writer's ancestry; no value crosses into another process)
        for m in msgs.iter().filter(|m| m.key.starts_with('r') && m.key != "r_scope") {
            let Some(p) = m.inputs.get("params") else { continue };
            let mut leaks = vec![];
            if let Some(y) = p.get("seen_y") {
                if !y.is_null() {
                    leaks.push(("step_scoped_name", "y", y.clone()));
                }
            }
            for j in 1..=3usize {
                if j != pi + 1 {
                    if let Some(x) = p.get(&format!("seen_own{}", j)) {
                        if !x.is_null() {
                            leaks.push(("other_process_start_value", "own", x.clone()));
                        }
                    }
                }
            }
            if let Some((what, name, val)) = leaks.first() {
                ctx.count("probe.leak_seen", 1);
                v.push(Violation::new("C07", "value_outside_its_scope", json!({"what": what}), format!("process {}: reader {} ({}) saw {}={} although no scope in its ancestry holds that name", pid, m.key, m.nid, name, val)));
                break;
            }
        }
        if !v.is_empty() {
            break;
        }
        // branch selection
        for k in &exp.markers_present {
            if !msgs.iter().any(|m| &m.key == k) {
                v.push(Violation::new("C07", "branch_selected_on_stale_value", json!({"missing": true}), format!("process {}: the branch marked by {} must have run for the values the scope model holds", pid, k)));
                break;
            }
        }
        for k in &exp.markers_absent {
            if msgs.iter().any(|m| &m.key == k) {
                v.push(Violation::new("C07", "branch_selected_on_stale_value", json!({"missing": false}), format!("process {}: the branch marked by {} ran although its condition does not hold for the values the scope model holds", pid, k)));
                break;
            }
        }
        if !v.is_empty() {
            break;
        }
        // terminal outputs: exactly the declared keys plus `data`, last values written
        let done = done.unwrap();
        let o = done.outputs.as_object().cloned().unwrap_or_default();
        let mut keys: Vec<String> = o.keys().cloned().collect();
        keys.sort();
        if keys != vec!["a".to_string(), "b".to_string(), "data".to_string()] {
            v.push(Violation::new("C07", "terminal_output_keys", json!({"keys": keys}), format!("process {}: terminal outputs have keys {:?} instead of [a, b, data]", pid, keys)));
            break;
        }
        if o.get("a") != Some(&json!(exp.final_a)) || o.get("b") != Some(&json!(exp.final_b)) {
            v.push(Violation::new("C07", "terminal_output_values", json!({}), format!("process {}: terminal outputs {} but the last values written are a={} b={}", pid, done.outputs, exp.final_a, exp.final_b)));
            break;
        }
        // undeclared and private option keys never leave the act
        if let Some(p) = rec.qpoints.last().and_then(|q| q.live.iter().find(|p| p.pid == pid)) {
            for t in &p.tasks {
                let is_target = t.kind == "act" && t.uses == "acts.core.irq";
                if t.data.get("zz_undeclared").is_some() {
                    v.push(Violation::new("C07", "undeclared_option_kept", json!({"in": if is_target { "target_act".to_string() } else { t.kind.clone() }}), format!("process {}: the undeclared option key zz_undeclared is stored in {} {}", pid, t.kind, t.nid)));
                    break;
                }
                if t.data.get("__private").is_some() && !is_target {
                    ctx.count("probe.private_key", 1);
                    v.push(Violation::new("C07", "private_key_left_its_task", json!({"in": t.kind}), format!("process {}: the private key __private is stored in {} {}", pid, t.kind, t.nid)));
                    break;
                }
            }
            // the step-scoped name stays in its step
            if step_scope && v.is_empty() {
                if let Some(root) = p.tasks.iter().find(|t| t.tid == "$") {
                    if root.data.get("y").is_some() {
                        v.push(Violation::new("C07", "step_scoped_name_reached_root", json!({}), format!("process {}: y is declared by step s_scope but the workflow task holds y={}", pid, root.data["y"])));
                    }
                }
                if let Some(m) = msgs.iter().find(|m| m.key == "r_scope") {
                    let sy = m.inputs.get("params").and_then(|p| p.get("seen_y")).cloned().unwrap_or(Value::Null);
                    if sy != json!(77) && v.is_empty() {
                        v.push(Violation::new("C07", "reader_saw_wrong_value", json!({"last_writer": "set_step_scope", "other_process_value": false}), format!("process {}: the reader inside s_scope saw y={} after set y=77", pid, sy)));
                    }
                }
            }
        }
        for m in &msgs {
            for side in [&m.inputs, &m.outputs] {
                if side.get("zz_undeclared").is_some() || side.get("__private").is_some() {
                    v.push(Violation::new("C07", "option_key_leaked_into_message", json!({"type": m.typ}), format!("process {}: message {} {} carries an undeclared/private option key: in={} out={}", pid, m.typ, m.nid, m.inputs, m.outputs)));
                    break;
                }
            }
            if !v.is_empty() {
                break;
            }
        }
        if !v.is_empty() {
            break;
        }
    }
    let writers = kinds.iter().filter(|k| **k != "reader" && **k != "branch").collect::<std::collections::BTreeSet<_>>().len();
    out.violations = v;
    out.nontrivial = writers >= 2;
    out.outcome_hash = outcome_hash(&rec);
    out.sample = basic_sample(&sc, &rec, json!({"ops": format!("{:?}", ops), "processes": per_proc.iter().map(|p| format!("a0={} b0={} supplied={:?}", p.0, p.1, p.2)).collect::<Vec<_>>()}));
    let _ = completer_for;
    out
}
