//! Shared scenario generators and helpers of the property checks.
use crate::checks::*;
use crate::gen::*;
use crate::model::*;
use crate::obs::*;
use crate::scenario::*;
use serde_json::{json, Map, Value};
use std::collections::BTreeMap;
use vsim::rng::Rng;

pub const SEVEN: [&str; 7] = ["complete", "submit", "skip", "remove", "abort", "error", "back"];
pub const TEN: [&str; 10] = ["complete", "submit", "skip", "remove", "abort", "error", "back", "cancel", "push", "set_process_vars"];

/// options a well-behaved client would send with an action on the act `a`
pub fn good_options(action: &str, a: Option<&MAct>, steps: &[String], rng: &mut Rng) -> Map<String, Value> {
    let mut o = Map::new();
    if let Some(a) = a {
        for k in &a.outputs {
            o.insert(k.clone(), json!(rng.range(1, 9)));
        }
    }
    match action {
        "error" => {
            o.insert("ecode".into(), json!(rng.pick(&["e1", "e2", "e3", "e9"]).to_string()));
            o.insert("message".into(), json!("boom"));
        }
        "back" => {
            if !steps.is_empty() {
                o.insert("to".into(), json!(rng.pick(steps).clone()));
            }
        }
        _ => {}
    }
    o
}

pub struct LifeOpts {
    pub catches: bool,
    pub scripted_actions: &'static [&'static str],
    /// per mille of irq acts that get a non-complete scripted reaction
    pub p_scripted: u32,
    pub adversary: Option<(u32, u32, &'static [&'static str])>,
    pub dup: bool,
    pub generators: bool,
    pub hooks: bool,
    pub outputs: bool,
    /// sometimes leave a declared output out of the client's options (the action must be rejected)
    pub drop_outputs: bool,
}

/// control-flow models + a scripted client that uses every kind of action + optional adversary
/// backward `next` jump (the README's loop idiom): a counting step `linc` (c := c + 1) is put in front of one of
/// the top-level steps and a step `ljmp` behind the same or a later one; `ljmp` has the branch `lb` (if c < K)
/// whose last step `lstep` carries `next: linc`, optionally an else-branch beside it.  Everything between the
/// two is visited K times.
pub fn add_loop(m: &mut MWorkflow, rng: &mut vsim::rng::Rng) {
    let n = m.steps.len();
    let i = if n == 0 { 0 } else { rng.below(n as u64 + 1) as usize };
    let j = i + if n > i { rng.below((n - i) as u64 + 1) as usize } else { 0 };
    let k = 1 + rng.range(1, 3);
    m.inputs.insert("c".into(), json!(0));
    let linc = MStep { id: "linc".into(), acts: vec![MAct { id: "linc_a".into(), kind: ActKind::Code("$set(\"c\", c + 1);".into()), ..Default::default() }], ..Default::default() };
    let mut lsteps = vec![];
    if rng.below(2) == 0 {
        lsteps.push(MStep { id: "lpre".into(), acts: vec![MAct { id: "lpre_a".into(), key: "lpre_k".into(), kind: if rng.below(2) == 0 { ActKind::Irq } else { ActKind::Msg }, ..Default::default() }], ..Default::default() });
    }
    // the jumping step: usually with an act, sometimes empty, sometimes skipped by its own condition (a skipped
    // step still takes its `next`)
    let shape = rng.below(8);
    let lacts = if shape == 0 { vec![] } else { vec![MAct { id: "lstep_a".into(), key: "loop_mark".into(), kind: ActKind::Msg, ..Default::default() }] };
    let lcond = if shape == 1 { Some(Cond::Cmp(Expr::Var("c".into()), "<".into(), Expr::Const(0))) } else { None };
    lsteps.push(MStep { id: "lstep".into(), acts: lacts, cond: lcond, next: Some("linc".into()), ..Default::default() });
    let mut branches = vec![MBranch { id: "lb".into(), kind: BranchKind::If(Cond::Cmp(Expr::Var("c".into()), "<".into(), Expr::Const(k))), steps: lsteps }];
    if rng.below(2) == 0 {
        branches.push(MBranch { id: "lelse".into(), kind: BranchKind::Else, steps: vec![MStep { id: "lelse_s".into(), acts: vec![MAct { id: "lelse_a".into(), key: "loop_left".into(), kind: ActKind::Msg, ..Default::default() }], ..Default::default() }] });
        if rng.below(2) == 0 {
            branches.reverse();
        }
    }
    let ljmp = MStep { id: "ljmp".into(), branches, ..Default::default() };
    m.steps.insert(j, ljmp);
    m.steps.insert(i, linc);
}


/// the multi-step cancel history, played on purpose (models without generator acts)
pub fn cancel_family(sc: &mut Scenario, r: &mut Rng) {
    // one family plays the multi-step history on purpose: the first interrupts are completed, every interrupt
    // that opens afterwards cancels the act the client completed last, and many steps begin with an act that its own
    // condition skips (or that the client closes by skip / submit / remove) - the cancel walks over tasks that
    // are already closed
    let has_generators = { let mut g = false; sc.models[0].visit_acts(&mut |a| g |= matches!(a.kind, ActKind::Block { .. } | ActKind::Parallel { .. } | ActKind::Sequence { .. })); g };
    if !has_generators {
        fn skip_first(steps: &mut [MStep], r: &mut vsim::rng::Rng) {
            for s in steps.iter_mut() {
                if s.acts.len() >= 2 && r.below(2) == 0 {
                    s.acts[0].cond = Some(Cond::Cmp(Expr::Var("b".into()), ">".into(), Expr::Var("b".into())));
                }
                for b in s.branches.iter_mut() {
                    skip_first(&mut b.steps, r);
                }
            }
        }
        skip_first(&mut sc.models[0].steps, r);
        let mut keys: Vec<(u32, String)> = sc.client.reactions.keys().filter_map(|k| k.trim_start_matches(|c: char| !c.is_ascii_digit()).parse::<u32>().ok().map(|n| (n, k.clone()))).collect();
        keys.sort();
        if keys.len() >= 2 {
            let i = 1 + r.below(keys.len() as u64 - 1) as usize;
            let closing = r.pick(&["skip", "submit", "remove", "cancel_prev"]).to_string();
            for (j, (_, k)) in keys.iter().enumerate() {
                if let Some(list) = sc.client.reactions.get_mut(k) {
                    // every declared output is supplied: the actions of this family are meant to be accepted
                    let mut opts = serde_json::Map::new();
                    sc.models[0].visit_acts(&mut |a| {
                        if &a.key == k {
                            for o in &a.outputs {
                                opts.insert(o.clone(), json!(1));
                            }
                        }
                    });
                    let action = if j < i { "complete".to_string() } else if j == i { closing.clone() } else { "cancel_prev".to_string() };
                    list[0] = Reaction { action, options: opts.clone(), repeat: 0 };
                    if list.len() > 1 {
                        list[1] = Reaction { action: "complete".into(), options: opts, repeat: 0 };
                    }
                }
            }
            sc.adversary = None;
        }
    }
}

pub fn gen_lifecycle(rng: &mut Rng, o: &LifeOpts) -> Scenario {
    let mut cfg = GenCfg::control();
    cfg.p_branches = *rng.pick(&[300, 500, 700]);
    cfg.p_needs = *rng.pick(&[0, 150, 300]);
    cfg.p_else = *rng.pick(&[300, 600]);
    cfg.p_step_if = *rng.pick(&[0, 150]);
    cfg.p_act_if = *rng.pick(&[0, 150]);
    cfg.max_steps = 1 + rng.below(4) as u32;
    cfg.w_irq = 6;
    cfg.w_msg = 3;
    if o.catches {
        cfg.p_catch = *rng.pick(&[0, 250, 500]);
    }
    if o.generators {
        cfg.w_block = 1;
        cfg.w_parallel = 1;
        cfg.w_sequence = 1;
    }
    if o.hooks {
        cfg.p_hooks = *rng.pick(&[0, 300]);
    }
    if o.outputs {
        cfg.p_act_outputs = *rng.pick(&[0, 300, 600]);
    }
    let mut g = Gen::new(rng, cfg);
    let m = g.workflow("m");
    let mut sc = Scenario::default();
    let mut steps: Vec<String> = vec![];
    m.visit_steps(&mut |s| steps.push(s.id.clone()));
    let mut acts: Vec<MAct> = vec![];
    m.visit_acts(&mut |a| acts.push(a.clone()));
    let mut reactions: BTreeMap<String, Vec<Reaction>> = BTreeMap::new();
    // re-running a generator act (back / cancel into a step that contains block/parallel/sequence)
    // is outside the explored space (see DESIGN.md, limits): the two are never combined
    let has_generators = acts.iter().any(|a| matches!(a.kind, ActKind::Block { .. } | ActKind::Parallel { .. } | ActKind::Sequence { .. }));
    for a in acts.iter().filter(|a| matches!(a.kind, ActKind::Irq)) {
        let mut action = if !o.scripted_actions.is_empty() && rng.chance(o.p_scripted) { rng.pick(o.scripted_actions).to_string() } else { "complete".to_string() };
        if has_generators && (action == "back" || action == "cancel" || action == "cancel_prev") {
            action = "complete".to_string();
        }
        let mut options = good_options(&action, Some(a), &steps, rng);
        // sometimes leave a declared output out (must be rejected) or add undeclared keys
        if o.drop_outputs && !a.outputs.is_empty() && rng.below(6) == 0 {
            options.remove(&a.outputs[0]);
        }
        if rng.below(5) == 0 {
            options.insert("extra_key".into(), json!("x"));
            options.insert("__private".into(), json!(1));
        }
        let repeat = if o.dup && rng.below(4) == 0 { 1 + rng.below(2) as u8 } else { 0 };
        // a second reaction for a later occurrence of the same key (after back / cancel / redo)
        let mut list = vec![Reaction { action, options, repeat }];
        let mut o2 = Map::new();
        for k in &a.outputs {
            o2.insert(k.clone(), json!(2));
        }
        list.push(Reaction { action: "complete".into(), options: o2, repeat: 0 });
        reactions.insert(a.key.clone(), list);
    }
    sc.client.reactions = reactions;
    sc.models.push(m);
    sc.starts.push(Start { model: "m".into(), vars: valuation(rng, 3), pid: Some("p1".into()), at_q: 0 });
    sc.client.mode = rng.pick(&["sequential", "sequential", "spawned", "inline"]).to_string();
    sc.client.order = rng.pick(&["fifo", "random"]).to_string();
    sc.engine.keep_processes = rng.below(3) != 0;
    sc.knobs = random_knobs(rng);
    sc.deploy_yaml = rng.below(2) == 0;
    sc.capture = true;
    if let Some((permille, max, actions)) = o.adversary {
        sc.adversary = Some(AdversarySpec { permille, max_actions: max, actions: actions.iter().filter(|a| !(has_generators && (**a == "back" || **a == "cancel"))).map(|s| s.to_string()).collect() });
        // the adversary acts at quiescent points; keep the client sequential so that "before" and
        // "after" images bracket exactly one action
        sc.client.mode = "sequential".into();
    }
    sc.max_ops = 120;
    sc
}

pub fn discard_if_broken(rec: &RunRecord, out: &mut CaseOut) -> bool {
    if let Some(p) = rec.panics.iter().find(|p| p.starts_with("deploy") || p.starts_with("harness")) {
        out.discarded = Some(p.clone());
        return true;
    }
    false
}

/// action (if any) whose call interval contains the sequence number
pub fn action_at(rec: &RunRecord, seq: u64) -> Option<&ActionRec> {
    rec.actions.iter().find(|a| a.seq0 <= seq && seq <= a.seq1)
}

pub fn find_act<'a>(models: &'a [MWorkflow], nid: &str) -> Option<MAct> {
    let mut out = None;
    for m in models {
        m.visit_acts(&mut |a| {
            if a.id == nid && out.is_none() {
                out = Some(a.clone());
            }
        });
    }
    out
}

pub fn find_step<'a>(models: &'a [MWorkflow], nid: &str) -> Option<MStep> {
    let mut out = None;
    for m in models {
        m.visit_steps(&mut |s| {
            if s.id == nid && out.is_none() {
                out = Some(s.clone());
            }
        });
    }
    out
}

/// the most recent accepted client action other than `complete` before `seq` ("none" if there is none):
/// part of the signature of lifecycle violations, so that a recorded finding names the history class
pub fn last_special_action(rec: &RunRecord, seq: u64) -> String {
    rec.actions.iter().filter(|a| a.ok && a.action != "complete" && a.seq0 <= seq).last().map(|a| a.action.clone()).unwrap_or_else(|| "none".to_string())
}

pub fn outcome_hash(rec: &RunRecord) -> u64 {
    let mut v: Vec<String> = rec.trans.iter().filter(|t| is_terminal_state(&t.new)).map(|t| format!("{}:{}:{}", t.pid, t.nid, t.new)).collect();
    v.sort();
    vsim::hash_str(&v.join(","))
}

pub fn basic_sample(sc: &Scenario, rec: &RunRecord, extra: Value) -> Value {
    let ev: Vec<String> = rec.msgs.iter().filter(|m| m.via != "message").map(|m| format!("{}:{}:{}", m.via, m.pid, m.state)).collect();
    let acts: Vec<String> = rec.actions.iter().map(|a| format!("{} {} key={} -> {}", a.by, a.action, a.key, if a.ok { "ok" } else { "err" })).collect();
    sample_of(sc, json!({"events": ev, "actions": acts, "messages": rec.msgs.len(), "transitions": rec.trans.len(), "steps": rec.steps, "decisions": rec.decisions.len(), "extra": extra}))
}
