//! C18 — Channels deliver exactly the messages their filters select.
use super::common::*;
use crate::checks::*;
use crate::gen::*;
use crate::model::*;
use crate::obs::*;
use crate::scenario::*;
use serde_json::json;
use std::collections::BTreeMap;

pub fn def() -> CheckDef {
    CheckDef {
        id: "C18",
        title: "Channels deliver exactly the messages their filters select",
        case,
        rule: "case = a generated run (model with tags on the workflow, steps and acts; scripted client incl. error/skip/abort endings) observed by a match-all channel and 1..5 further channels whose type / state / key / uses / tag patterns are generated from {literal, *, ?, {a,b}, [a-c]} (biased towards values that occur), while channels are closed, unsubscribed and re-registered under the same id at seeded task boundaries (between any two executor steps, i.e. while dispatches are in flight) x seeded schedule. RefGlob (an independent matcher) decides for every message and channel: delivered <=> registered at the dispatch and all patterns match (tag: message tag or model tag); never twice per channel id; other channels unaffected. non-trivial = some channel received a strict, non-empty subset of the messages or a (de)registration happened between two deliveries; distinct = distinct (scenario hash, schedule hash, fault hash)",
        level: "exploration",
        assumptions: &["one dispatch task delivers a message to all channels registered at that moment, so registration is judged at the dispatch (observed through the match-all channel)", "patterns are generated inside the glob subset named in the property", "monotone simulated clock"],
        probes: &["probe.strict_subset_channel", "probe.close_between_deliveries", "probe.reopen", "probe.unsub", "probe.alternation", "probe.char_class", "probe.question_mark", "probe.tag_matched_by_model_tag", "probe.event_filtered"],
        quick_cases: 6000,
        no_shrink: &[],
    }
}

// ---- RefGlob: literal, *, ?, {a,b}, [a-c]
fn expand(p: &str) -> Vec<String> {
    if let Some(i) = p.find('{') {
        if let Some(j) = p[i..].find('}') {
            let (pre, rest) = p.split_at(i);
            let inner = &rest[1..j];
            let post = &rest[j + 1..];
            let mut out = vec![];
            for alt in inner.split(',') {
                for tail in expand(post) {
                    out.push(format!("{}{}{}", pre, alt, tail));
                }
            }
            return out;
        }
    }
    vec![p.to_string()]
}

fn m1(p: &[char], s: &[char]) -> bool {
    if p.is_empty() {
        return s.is_empty();
    }
    match p[0] {
        '*' => (0..=s.len()).any(|k| m1(&p[1..], &s[k..])),
        '?' => !s.is_empty() && m1(&p[1..], &s[1..]),
        '[' => {
            let Some(end) = p.iter().position(|c| *c == ']') else { return false };
            if s.is_empty() {
                return false;
            }
            let class = &p[1..end];
            let mut ok = false;
            let mut i = 0;
            while i < class.len() {
                if i + 2 < class.len() && class[i + 1] == '-' {
                    if class[i] <= s[0] && s[0] <= class[i + 2] {
                        ok = true;
                    }
                    i += 3;
                } else {
                    if class[i] == s[0] {
                        ok = true;
                    }
                    i += 1;
                }
            }
            ok && m1(&p[end + 1..], &s[1..])
        }
        c => !s.is_empty() && s[0] == c && m1(&p[1..], &s[1..]),
    }
}

pub fn glob_match(p: &str, s: &str) -> bool {
    let sc: Vec<char> = s.chars().collect();
    expand(p).iter().any(|alt| m1(&alt.chars().collect::<Vec<_>>(), &sc))
}

fn pattern(rng: &mut vsim::rng::Rng, values: &[&str]) -> String {
    match rng.below(9) {
        0 | 1 => "*".into(),
        2 => rng.pick(values).to_string(),
        3 => {
            let v = rng.pick(values).to_string();
            if v.len() >= 2 { format!("{}*", &v[..v.len() / 2]) } else { "*".into() }
        }
        4 => {
            let v = rng.pick(values).to_string();
            if v.len() >= 2 { format!("*{}", &v[v.len() / 2..]) } else { "?".into() }
        }
        5 => {
            // alternatives are non-empty (globset does not accept an empty alternate by default)
            let (a, b) = (rng.pick(values).to_string(), rng.pick(values).to_string());
            if a.is_empty() || b.is_empty() { "*".into() } else { format!("{{{},{}}}", a, b) }
        }
        6 => {
            let v = rng.pick(values).to_string();
            if v.is_empty() { "*".into() } else { format!("{}?", &v[..v.len() - 1]) }
        }
        7 => {
            let v = rng.pick(values).to_string();
            match v.chars().next() {
                Some(c) if c.is_ascii_lowercase() => format!("[{}-{}]{}", (c as u8).saturating_sub(1).max(b'a') as char, ((c as u8) + 1).min(b'z') as char, &v[1..]),
                _ => "*".into(),
            }
        }
        _ => format!("{}x", rng.pick(values)),
    }
}

fn gen_scenario(rng: &mut vsim::rng::Rng) -> Scenario {
    let opts = LifeOpts { catches: true, scripted_actions: &["complete", "complete", "error", "skip", "abort", "submit"], p_scripted: *rng.pick(&[0, 200, 400]), adversary: None, dup: false, generators: rng.below(4) == 0, hooks: false, outputs: false, drop_outputs: true };
    let mut sc = gen_lifecycle(rng, &opts);
    // tags
    let tags = ["t1", "t2", "red", "blue"];
    let m = &mut sc.models[0];
    m.tag = if rng.below(2) == 0 { rng.pick(&tags).to_string() } else { String::new() };
    fn tag_steps(steps: &mut [MStep], rng: &mut vsim::rng::Rng, tags: &[&str]) {
        for s in steps.iter_mut() {
            if rng.below(3) == 0 {
                s.tag = rng.pick(tags).to_string();
            }
            for a in s.acts.iter_mut() {
                if rng.below(3) == 0 {
                    a.tag = rng.pick(tags).to_string();
                }
            }
            for b in s.branches.iter_mut() {
                tag_steps(&mut b.steps, rng, tags);
            }
        }
    }
    tag_steps(&mut m.steps, rng, &tags);
    let mut keys: Vec<String> = vec!["m".into()];
    m.visit_acts(&mut |a| keys.push(a.key.clone()));
    m.visit_steps(&mut |s| keys.push(s.id.clone()));
    let keys: Vec<&str> = keys.iter().map(|s| s.as_str()).filter(|s| !s.is_empty()).collect();
    let nch = 1 + rng.below(5) as usize;
    for i in 0..nch {
        let c = ChanSpec {
            label: format!("c{}", i + 1),
            id: format!("chan{}", i + 1),
            ack: false,
            typ: pattern(rng, &["workflow", "step", "act"]),
            state: pattern(rng, &["created", "completed", "error", "skipped", "aborted", "submitted"]),
            tag: pattern(rng, &tags),
            key: pattern(rng, &keys),
            uses: pattern(rng, &["acts.core.irq", "acts.core.msg", ""]),
        };
        sc.channels.push(c);
    }
    // (de)registration at task boundaries
    let nops = rng.below(5);
    let mut closed: BTreeMap<usize, bool> = BTreeMap::new();
    let mut at = 5 + rng.below(30);
    for _ in 0..nops {
        let ch = 1 + rng.below(nch as u64) as usize;
        let is_closed = closed.get(&ch).copied().unwrap_or(false);
        let kind = if is_closed { "reopen" } else { *rng.pick(&["close", "unsub", "reopen"]) };
        closed.insert(ch, kind != "reopen");
        sc.chan_ops.push(ChanOp { at_step: at, kind: kind.into(), chan: ch });
        at += 1 + rng.below(40);
    }
    sc.engine.keep_processes = true;
    sc.capture = false;
    sc
}

pub fn case(ctx: &mut CaseCtx) -> CaseOut {
    let sc = ctx.scenario(gen_scenario);
    let rec = ctx.run(&sc);
    let mut out = CaseOut { scenario: Some(sc.clone()), ..Default::default() };
    if discard_if_broken(&rec, &mut out) {
        return out;
    }
    let mut v: Vec<Violation> = vec![];
    // the reference stream: everything the match-all channel saw, in dispatch order
    let main: Vec<&MsgRec> = rec.msgs.iter().filter(|m| m.chan == "main").collect();
    let mut strict_subset = false;
    let mut between = false;
    for (ci, c) in sc.channels.iter().enumerate().skip(1) {
        let mine: Vec<&MsgRec> = rec.msgs.iter().filter(|m| m.chan == c.label).collect();
        // registration intervals from the recorded channel operations
        let ops: Vec<(u64, bool)> = rec.ops.iter().filter(|o| o.op.starts_with("chan_") && o.detail == c.label).map(|o| (o.seq, o.op == "chan_reopen")).collect();
        let registered_at = |seq: u64| ops.iter().filter(|(s, _)| *s < seq).last().map(|(_, open)| *open).unwrap_or(true);
        for p in [&c.typ, &c.state, &c.tag, &c.key, &c.uses] {
            if p.contains('{') {
                ctx.count("probe.alternation", 1);
            }
            if p.contains('[') {
                ctx.count("probe.char_class", 1);
            }
            if p.contains('?') {
                ctx.count("probe.question_mark", 1);
            }
        }
        for o in rec.ops.iter().filter(|o| o.detail == c.label) {
            match o.op.as_str() {
                "chan_reopen" => ctx.count("probe.reopen", 1),
                "chan_unsub" => ctx.count("probe.unsub", 1),
                _ => {}
            }
            if main.iter().any(|m| m.seq < o.seq) && main.iter().any(|m| m.seq > o.seq) {
                between = true;
            }
        }
        let mut want = 0usize;
        for m in &main {
            let tag_direct = glob_match(&c.tag, &m.tag);
            let tag_model = glob_match(&c.tag, &m.model_tag);
            let matches = glob_match(&c.typ, &m.typ) && glob_match(&c.state, &m.state) && (tag_direct || tag_model) && glob_match(&c.key, &m.key) && glob_match(&c.uses, &m.uses);
            if matches && !tag_direct && tag_model {
                ctx.count("probe.tag_matched_by_model_tag", 1);
            }
            if !matches && m.via != "message" {
                ctx.count("probe.event_filtered", 1);
            }
            let reg = registered_at(m.seq);
            let n = mine.iter().filter(|x| x.id == m.id && x.via == m.via).count();
            let sig = |what: &str| json!({"what": what, "via": m.via, "after_channel_op": !ops.is_empty()});
            let pats = format!("type={} state={} tag={} key={} uses={}", c.typ, c.state, c.tag, c.key, c.uses);
            if n > 1 {
                v.push(Violation::new("C18", "delivered_twice", sig("duplicate"), format!("channel {} ({}): {} {} {} {} was delivered {} times", c.label, pats, m.via, m.typ, m.key, m.state, n)));
                break;
            }
            if reg && matches {
                want += 1;
                if n == 0 {
                    v.push(Violation::new("C18", "matching_message_not_delivered", sig("missing"), format!("channel {} ({}) was registered and matches, but {} {} nid={} key={} state={} tag={} model_tag={} uses={} was not delivered to it", c.label, pats, m.via, m.typ, m.nid, m.key, m.state, m.tag, m.model_tag, m.uses)));
                    break;
                }
            } else if n > 0 {
                let what = if !reg { "delivered_after_close" } else { "non_matching_message_delivered" };
                v.push(Violation::new("C18", what, sig(what), format!("channel {} ({}) registered={} matches={}: {} {} nid={} key={} state={} tag={} model_tag={} uses={} was delivered to it", c.label, pats, reg, matches, m.via, m.typ, m.nid, m.key, m.state, m.tag, m.model_tag, m.uses)));
                break;
            }
        }
        if !v.is_empty() {
            break;
        }
        // nothing that the match-all channel did not see
        if let Some(x) = mine.iter().find(|x| !main.iter().any(|m| m.id == x.id && m.via == x.via)) {
            v.push(Violation::new("C18", "message_only_on_filtered_channel", json!({"via": x.via}), format!("channel {} received {} {} {} that the match-all channel never saw", c.label, x.via, x.typ, x.key)));
            break;
        }
        if want > 0 && want < main.len() {
            strict_subset = true;
        }
        let _ = ci;
    }
    if strict_subset {
        ctx.count("probe.strict_subset_channel", 1);
    }
    if between {
        ctx.count("probe.close_between_deliveries", 1);
    }
    out.violations = v;
    out.nontrivial = strict_subset || between;
    out.outcome_hash = outcome_hash(&rec);
    out.sample = sample_of(&sc, json!({"channels": sc.channels, "channel_ops": sc.chan_ops, "messages_on_main": main.len(), "per_channel": sc.channels.iter().map(|c| (c.label.clone(), rec.msgs.iter().filter(|m| m.chan == c.label).count())).collect::<BTreeMap<_, _>>()}));
    let _ = completer_for;
    out
}

// ---------------------------------------------------------------------------------------------
// part (b): a handler that unsubscribes a channel from inside its own callback (the dispatch that calls it is in
// flight by definition)

pub fn def_b() -> CheckDef {
    CheckDef {
        id: "C18b",
        title: "Channels: unsubscribing from inside a message handler",
        case: case_b,
        rule: "case = a generated run observed by the client's match-all channel and by two further match-all channels `closer` and `other`; the handler of `closer` unsubscribes, on its k-th delivery (k seeded 1..6), either its own channel or `other`, from inside the callback - while the dispatch that calls it is in flight. The engine's lock operations are intercepted (a lock that can never be granted is reported instead of blocking the process). Oracle: the call returns (the engine does not deadlock on its handler maps), the run goes on to its end, and the unsubscribed channel receives nothing that was dispatched after the call returned. non-trivial = the unsubscribing delivery happened and at least one message was dispatched after it; distinct = distinct (scenario hash, schedule hash)",
        level: "exploration",
        assumptions: &["lock interception through hook H3: a lock request that no thread can ever satisfy is reported as a deadlock instead of blocking", "monotone simulated clock"],
        probes: &["probe.unsubscribed_own_channel", "probe.unsubscribed_other_channel", "probe.dispatch_after_unsubscribe"],
        quick_cases: 1500,
        no_shrink: &[],
    }
}

pub fn case_b(ctx: &mut CaseCtx) -> CaseOut {
    let sc = ctx.scenario(|rng| {
        let opts = LifeOpts { catches: false, scripted_actions: &["complete"], p_scripted: 0, adversary: None, dup: false, generators: rng.below(3) == 0, hooks: false, outputs: false, drop_outputs: false };
        let mut sc = gen_lifecycle(rng, &opts);
        sc.client.mode = rng.pick(&["sequential", "inline"]).to_string();
        sc.engine.keep_processes = true;
        sc.knobs = random_knobs(rng);
        // k and the target travel in the scenario
        sc.max_ops = 1 + rng.below(6) as u32;
        sc.ticks = rng.below(2) as u32;
        sc.capture = false;
        sc
    });
    let k = sc.max_ops.max(1) as usize;
    let own = sc.ticks == 0;
    let mut sc_run = sc.clone();
    sc_run.max_ops = 400;
    sc_run.ticks = 0;
    // (channel, seq) of every delivery to the two extra channels; seq at which the unsubscribe returned
    let deliveries: std::sync::Arc<std::sync::Mutex<Vec<(String, u64)>>> = Default::default();
    let unsub_at: std::sync::Arc<std::sync::Mutex<Option<(u64, u64, bool)>>> = Default::default();
    let (d2, u2) = (deliveries.clone(), unsub_at.clone());
    let deadlock: std::sync::Arc<std::sync::Mutex<Option<String>>> = Default::default();
    let deadlock2 = deadlock.clone();
    let rec = ctx.run_with(&sc_run, move |w| {
        if let Err(e) = w.deploy_all() {
            w.rec.lock().unwrap().rec.panics.push(format!("deploy: {e}"));
            return;
        }
        // locks are intercepted: a request that can never be granted is reported
        vsim::vthread::begin(0);
        let engine = w.engine().clone();
        let mk_opts = |id: &str| acts::ChannelOptions { id: id.to_string(), ack: false, r#type: "*".into(), state: "*".into(), tag: "*".into(), key: "*".into(), uses: "*".into() };
        let other = engine.channel_with_options(&mk_opts("other"));
        {
            let d = d2.clone();
            other.on_message(move |_e| {
                d.lock().unwrap().push(("other".into(), vsim::bump_seq()));
            });
        }
        let closer = engine.channel_with_options(&mk_opts("closer"));
        {
            let d = d2.clone();
            let u = u2.clone();
            let engine2 = engine.clone();
            let count = std::sync::Arc::new(std::sync::atomic::AtomicUsize::new(0));
            closer.on_message(move |_e| {
                let seq = vsim::bump_seq();
                d.lock().unwrap().push(("closer".into(), seq));
                let n = count.fetch_add(1, std::sync::atomic::Ordering::SeqCst) + 1;
                if n == k {
                    let target = if own { "closer" } else { "other" };
                    vsim::log(&format!("UNSUB {} from inside the handler of closer", target));
                    let r = engine2.executor().msg().unsub(target);
                    let done = vsim::bump_seq();
                    *u.lock().unwrap() = Some((seq, done, r.is_ok()));
                }
            });
        }
        w.drive();
        let st = vsim::vthread::end();
        *deadlock2.lock().unwrap() = st.deadlock;
    });
    let mut out = CaseOut { scenario: Some(sc.clone()), ..Default::default() };
    let target = if own { "closer" } else { "other" };
    ctx.count(if own { "probe.unsubscribed_own_channel" } else { "probe.unsubscribed_other_channel" }, 1);
    let lock_panic = rec.panics.iter().find(|p| p.contains("engine lock deadlock")).cloned();
    if let Some(p) = lock_panic.or(deadlock.lock().unwrap().clone()) {
        out.violations.push(Violation::new("C18", "unsubscribe_inside_handler_deadlocks", json!({"target": if own { "own_channel" } else { "other_channel" }}), format!("the handler of channel `closer` unsubscribed `{}` from inside its callback: the engine waits for a lock on its handler maps that the dispatch calling the handler still holds - {}", target, p)));
        return out;
    }
    if discard_if_broken(&rec, &mut out) {
        return out;
    }
    let Some((_at, done, _ok)) = *unsub_at.lock().unwrap() else {
        out.sample = basic_sample(&sc, &rec, json!({"unsubscribe": "not reached", "k": k}));
        return out;
    };
    // dispatched after the call returned = generated after it: the client's channel saw it with a later sequence
    let later_dispatches = rec.msgs.iter().filter(|m| m.via == "message" && m.seq > done).count();
    if later_dispatches > 0 {
        ctx.count("probe.dispatch_after_unsubscribe", 1);
    }
    let late: Vec<u64> = deliveries.lock().unwrap().iter().filter(|(c, s)| c == target && *s > done).map(|(_, s)| *s).collect();
    // a delivery that belongs to the dispatch in flight (the one whose handler made the call) is not counted: only
    // messages generated after the call returned
    let gen_after: Vec<u64> = rec.msgs.iter().filter(|m| m.via == "message" && m.seq > done && m.gen.map(|g| rec.msgs.iter().filter(|x| x.seq <= done).filter_map(|x| x.gen).max().map(|mx| g > mx).unwrap_or(true)).unwrap_or(false)).map(|m| m.seq).collect();
    if !late.is_empty() && !gen_after.is_empty() && late.iter().any(|s| gen_after.iter().any(|g| s >= g)) {
        out.violations.push(Violation::new("C18", "delivered_after_unsubscribe_inside_handler", json!({"target": if own { "own_channel" } else { "other_channel" }}), format!("channel `{}` was unsubscribed from inside a handler (the call returned at seq {}) and still received {} deliveries afterwards, at seqs {:?}", target, done, late.len(), late.iter().take(4).collect::<Vec<_>>())));
    }
    out.nontrivial = later_dispatches > 0;
    out.outcome_hash = outcome_hash(&rec);
    out.sample = basic_sample(&sc, &rec, json!({"k": k, "target": target, "unsubscribe_returned_at": done, "dispatches_after": later_dispatches}));
    out
}
