//! C11 — The store always holds a complete image of what the engine knows.
use super::common::*;
use crate::checks::*;
use crate::gen::*;
use crate::model::*;
use crate::obs::*;
use crate::scenario::*;
use serde_json::{json, Value};

pub fn def() -> CheckDef {
    CheckDef {
        id: "C11",
        title: "The store always holds a complete image of what the engine knows",
        case,
        rule: "case = generated model (control flow, catches, generated acts, a quarter with steps/branches/acts written without an id, set/code acts that write variables declared by enclosing scopes, workflow env and scripts that set $env) x scripted client using all action kinds incl. errors and cancel (an eighth playing the multi-step cancel history, another eighth failing every interrupt first so that catches revive tasks that then wait in their catch steps; a quarter with lifecycle hooks; a quarter with timeout rules, clock jumps and ticks while interrupts are open) x store backend (in-memory, SQLite) x seeded schedule; at every quiescent point the live process (hook H1, cache only) is compared with the process row and the task rows: same task set, per task state / prev / data / err / start and end time, per process state / err / env. non-trivial = the run reached >= 3 quiescent points with a cached, unfinished process and a variable, env or error was written; distinct = distinct (scenario hash, schedule hash)",
        level: "exploration",
        assumptions: &["monotone simulated clock", "the live side is read through hook H1 without loading from the store", "no storage errors are injected"],
        probes: &["probe.env_written_by_script", "probe.ancestor_variable_written", "probe.error_raised", "probe.catch_revive", "probe.else_branch_skipped", "probe.sqlite", "probe.generated_acts", "probe.timeout_rule_fired"],
        quick_cases: 4000,
        no_shrink: &[],
    }
}

fn gen_scenario(rng: &mut vsim::rng::Rng) -> Scenario {
    let opts = LifeOpts {
        catches: true,
        scripted_actions: &["complete", "complete", "error", "skip", "submit", "abort", "back", "remove", "cancel_prev", "cancel_prev"],
        p_scripted: *rng.pick(&[0, 200, 400]),
        adversary: None,
        dup: false,
        generators: rng.below(3) == 0,
        hooks: rng.below(4) == 0,
        outputs: true, drop_outputs: true
    };
    // an eighth of the cases play the multi-step cancel history on purpose (generator-free models)
    let family = rng.below(8) == 0;
    let mut opts = opts;
    if family {
        opts.generators = false;
        opts.hooks = false;
    }
    let mut sc = gen_lifecycle(rng, &opts);
    if family {
        cancel_family(&mut sc, rng);
    } else if rng.below(8) == 0 {
        // another family fails every interrupt first (a seeded code): tasks are revived by their catches and wait in
        // the catch steps - what the catch leaves on the revived task belongs to the stored image
        let code = rng.pick(&["e1", "e2", "e3"]).to_string();
        for list in sc.client.reactions.values_mut() {
            if let Some(first) = list.first_mut() {
                let mut o = first.options.clone();
                o.insert("ecode".into(), json!(code));
                o.insert("message".into(), json!("boom"));
                *first = Reaction { action: "error".into(), options: o, repeat: 0 };
            }
        }
    }
    // writers: set / code acts on the names the workflow declares, env at start and from scripts
    let m = &mut sc.models[0];
    let mut n = 0;
    fn add_writers(steps: &mut [MStep], rng: &mut vsim::rng::Rng, n: &mut u32) {
        for s in steps.iter_mut() {
            if !s.acts.is_empty() && rng.below(2) == 0 {
                *n += 1;
                let kind = match rng.below(4) {
                    0 => {
                        let mut kv = std::collections::BTreeMap::new();
                        kv.insert(rng.pick(&["a", "b"]).to_string(), json!(rng.range(10, 99)));
                        ActKind::Set(kv)
                    }
                    1 => ActKind::Code(format!("$set(\"{}\", a + b + {});", rng.pick(&["a", "b"]), rng.range(1, 9))),
                    2 => ActKind::Code(format!("$env.e{} = {};", rng.below(3), rng.range(1, 99))),
                    _ => ActKind::Code(format!("return {{ {}: {} }};", rng.pick(&["a", "b"]), rng.range(100, 199))),
                };
                let pos = rng.below(s.acts.len() as u64 + 1) as usize;
                s.acts.insert(pos, MAct { id: format!("w{}", n), kind, ..Default::default() });
            }
            for b in s.branches.iter_mut() {
                add_writers(&mut b.steps, rng, n);
            }
        }
    }
    add_writers(&mut m.steps, rng, &mut n);
    if rng.below(2) == 0 {
        m.env.insert("e0".into(), json!(rng.range(1, 9)));
    }
    sc.engine.store = if rng.below(3) == 0 { "sqlite".into() } else { "mem".into() };
    sc.engine.keep_processes = rng.below(2) == 0;
    sc.capture = true;
    // timeout rules on some interrupts, and ticks (after a jump of the clock) while they are open: what a rule
    // leaves on its task when it fires belongs to the stored image as well
    if rng.below(4) == 0 {
        let mut n = 0;
        fn add_rules(steps: &mut [MStep], rng: &mut vsim::rng::Rng, n: &mut u32) {
            for s in steps.iter_mut() {
                for a in s.acts.iter_mut() {
                    if matches!(a.kind, ActKind::Irq) && rng.below(2) == 0 {
                        *n += 1;
                        let on = rng.pick(&["2s", "5s", "1m"]).to_string();
                        a.timeouts.push(MTimeout { on: on.clone(), steps: vec![MStep { id: format!("to{}", n), acts: vec![MAct { id: format!("to{}_m", n), key: format!("timeout{}", n), kind: if rng.below(2) == 0 { ActKind::Irq } else { ActKind::Msg }, ..Default::default() }], ..Default::default() }] });
                    }
                }
                for b in s.branches.iter_mut() {
                    add_rules(&mut b.steps, rng, n);
                }
            }
        }
        add_rules(&mut sc.models[0].steps, rng, &mut n);
        sc.engine.tick_interval_secs = 1;
        for _ in 0..(2 + rng.below(4)) {
            let q = 1 + rng.below(8) as usize;
            sc.faults.push(FaultOp { at_q: q, kind: "jump".into(), arg: *rng.pick(&[2_500_000i64, 6_000_000, 61_000_000]) });
            sc.faults.push(FaultOp { at_q: q, kind: "tick".into(), arg: 0 });
        }
    }
    if rng.below(4) == 0 {
        let keep = opts.p_scripted > 0;
        anonymise(&mut sc.models[0], rng, 500, keep);
    }
    sc
}

fn differing_key(a: &Value, b: &Value) -> String {
    let (Some(x), Some(y)) = (a.as_object(), b.as_object()) else { return "<shape>".into() };
    for (k, v) in x {
        if y.get(k) != Some(v) {
            return k.clone();
        }
    }
    for k in y.keys() {
        if !x.contains_key(k) {
            return k.clone();
        }
    }
    String::new()
}

pub fn image_oracle(sc: &Scenario, rec: &RunRecord) -> Vec<Violation> {
    let backend = sc.engine.store.clone();
    for q in &rec.qpoints {
        for lp in &q.live {
            let Some(rp) = q.rows.iter().find(|r| r.pid == lp.pid) else {
                // a finished process is removed from the store by the default configuration; the cache
                // entry is removed with it
                return vec![Violation::new("C11", "process_row_missing", json!({"backend": backend, "state": lp.state}), format!("quiescent point {}: process {} ({}) is cached but has no row", q.idx, lp.pid, lp.state))];
            };
            let sig = |field: &str, node: &str, extra: &str| json!({"field": field, "node": node, "detail": if extra.starts_with("$is_timeout_") { "$is_timeout_<on>" } else { extra }});
            if lp.state != rp.state {
                return vec![Violation::new("C11", "process_image_differs", sig("state", "process", &format!("{}->{}", rp.state, lp.state)), format!("quiescent point {}: process {} is {} in memory but {} in its row", q.idx, lp.pid, lp.state, rp.state))];
            }
            if lp.env != rp.env {
                return vec![Violation::new("C11", "process_image_differs", sig("env", "process", ""), format!("quiescent point {}: process {} holds env {} in memory but its row says {}", q.idx, lp.pid, lp.env, rp.env))];
            }
            if lp.err != rp.err {
                return vec![Violation::new("C11", "process_image_differs", sig("err", "process", ""), format!("quiescent point {}: process {} holds err {:?} in memory but its row says {:?}", q.idx, lp.pid, lp.err, rp.err))];
            }
            for lt in &lp.tasks {
                // a task that is created but still waits in the queue is written when it is pushed
                let Some(rt) = rp.tasks.iter().find(|t| t.tid == lt.tid) else {
                    return vec![Violation::new("C11", "task_row_missing", sig("row", &lt.kind, &lt.state), format!("quiescent point {}: task {} ({} {}) of {} is {} in memory but has no row", q.idx, lt.tid, lt.kind, lt.nid, lp.pid, lt.state))];
                };
                if lt.state != rt.state {
                    return vec![Violation::new("C11", "task_image_differs", sig("state", &lt.kind, &format!("{}->{}", rt.state, lt.state)), format!("quiescent point {}: task {} ({} {}) of {} is {} in memory but {} in its row", q.idx, lt.tid, lt.kind, lt.nid, lp.pid, lt.state, rt.state))];
                }
                if lt.prev != rt.prev {
                    return vec![Violation::new("C11", "task_image_differs", sig("prev", &lt.kind, ""), format!("quiescent point {}: task {} ({} {}): prev {:?} in memory, {:?} in its row", q.idx, lt.tid, lt.kind, lt.nid, lt.prev, rt.prev))];
                }
                if lt.data != rt.data {
                    let k = differing_key(&lt.data, &rt.data);
                    let class = if k.starts_with('$') { k.clone() } else { "<variable>".to_string() };
                    return vec![Violation::new("C11", "task_image_differs", sig("data", &lt.kind, &class), format!("quiescent point {}: task {} ({} {}) of {}: data differs at `{}`: memory {} / row {}", q.idx, lt.tid, lt.kind, lt.nid, lp.pid, k, lt.data, rt.data))];
                }
                if lt.err != rt.err {
                    return vec![Violation::new("C11", "task_image_differs", sig("err", &lt.kind, ""), format!("quiescent point {}: task {} ({} {}): err {:?} in memory, {:?} in its row", q.idx, lt.tid, lt.kind, lt.nid, lt.err, rt.err))];
                }
                if lt.start_time != rt.start_time || lt.end_time != rt.end_time {
                    return vec![Violation::new("C11", "task_image_differs", sig("times", &lt.kind, ""), format!("quiescent point {}: task {} ({} {}): start/end {} {} in memory, {} {} in its row", q.idx, lt.tid, lt.kind, lt.nid, lt.start_time, lt.end_time, rt.start_time, rt.end_time))];
                }
            }
            for rt in &rp.tasks {
                if !lp.tasks.iter().any(|t| t.tid == rt.tid) {
                    return vec![Violation::new("C11", "task_only_in_store", sig("row", &rt.kind, ""), format!("quiescent point {}: task row {} ({}) of {} has no task in memory", q.idx, rt.tid, rt.kind, lp.pid))];
                }
            }
        }
    }
    vec![]
}

pub fn case(ctx: &mut CaseCtx) -> CaseOut {
    let sc = ctx.scenario(gen_scenario);
    let rec = ctx.run(&sc);
    let mut out = CaseOut { scenario: Some(sc.clone()), ..Default::default() };
    if discard_if_broken(&rec, &mut out) {
        return out;
    }
    out.violations = image_oracle(&sc, &rec);
    let mut wrote = false;
    let mut has = |f: &dyn Fn(&MAct) -> bool| {
        let mut x = false;
        for m in &sc.models {
            m.visit_acts(&mut |a| x |= f(a));
        }
        x
    };
    if has(&|a| matches!(&a.kind, ActKind::Code(s) if s.contains("$env"))) {
        ctx.count("probe.env_written_by_script", 1);
        wrote = true;
    }
    if has(&|a| matches!(&a.kind, ActKind::Set(_)) || matches!(&a.kind, ActKind::Code(s) if s.contains("$set") || s.contains("return"))) {
        ctx.count("probe.ancestor_variable_written", 1);
        wrote = true;
    }
    if has(&|a| matches!(&a.kind, ActKind::Block { .. } | ActKind::Parallel { .. } | ActKind::Sequence { .. })) {
        ctx.count("probe.generated_acts", 1);
    }
    if rec.msgs.iter().any(|m| m.key.starts_with("timeout")) {
        ctx.count("probe.timeout_rule_fired", 1);
    }
    if rec.trans.iter().any(|t| t.new == "error") {
        ctx.count("probe.error_raised", 1);
        wrote = true;
    }
    if rec.trans.iter().any(|t| t.old == "error" && t.new == "running") {
        ctx.count("probe.catch_revive", 1);
    }
    if rec.trans.iter().any(|t| t.kind == "branch" && t.old == "pending" && t.new == "skipped") {
        ctx.count("probe.else_branch_skipped", 1);
    }
    if sc.engine.store == "sqlite" {
        ctx.count("probe.sqlite", 1);
    }
    let busy = rec.qpoints.iter().filter(|q| q.live.iter().any(|p| !is_terminal_state(&p.state))).count();
    out.nontrivial = busy >= 3 && wrote;
    out.outcome_hash = outcome_hash(&rec);
    out.sample = basic_sample(&sc, &rec, json!({"qpoints": rec.qpoints.len(), "backend": sc.engine.store}));
    let _ = completer_for;
    out
}
