//! C09 — Acknowledged delivery: at-least-once, bounded retries, silent after ack.
use super::common::*;
use crate::checks::*;
use crate::gen::*;
use crate::model::*;
use crate::obs::*;
use crate::scenario::*;
use serde_json::json;
use std::collections::BTreeMap;

pub fn def() -> CheckDef {
    CheckDef {
        id: "C09",
        title: "Acknowledged delivery: at-least-once, bounded retries, silent after ack",
        case,
        rule: "case = a model with 2..5 interrupts/messages observed through an acknowledging channel x per-key ack policy (now / never / later:<n> / twice) x which interrupts the client answers and at which tick x max_message_retry_times in 1..5 x tick_interval_secs in {1,15} x stalled ticks x redo / clear operations at seeded ticks x restart of the engine at seeded quiescent points x store backend (in-memory with collection transplant, SQLite on a per-run file) x seeded schedule. RefMsgStore per message id: the row is created before the first handler call, redeliveries carry the same id and content with retry counts 1,2,.. up to the maximum, then status error and silence until redo, no delivery from a tick that started after the ack / the closing action, statuses never move back. non-trivial = at least one redelivery happened and at least one message was acked or closed; distinct = distinct (scenario hash, schedule hash, fault hash)",
        level: "exploration",
        assumptions: &["monotone simulated clock", "a redelivery that was emitted by a tick before the ack returned is in flight and may still arrive", "fewer than 300 stored messages (the tick looks at 300 per round)", "no storage errors are injected"],
        probes: &["probe.redelivery", "probe.acked", "probe.closed_by_action", "probe.reached_max_retries", "probe.redo", "probe.clear", "probe.restart", "probe.sqlite", "probe.ack_twice", "probe.late_ack", "probe.refused_action_on_open_task"],
        quick_cases: 4000,
        no_shrink: &[],
    }
}

pub fn case(ctx: &mut CaseCtx) -> CaseOut {
    let mut gr = vsim::rng::Rng::new(vsim::rng::mix(&[ctx.case_seed, 0xc09]));
    let n_acts = 2 + gr.below(4) as usize;
    let tick = *gr.pick(&[1i64, 1, 15]);
    let max_retry = 1 + gr.below(5) as i32;
    let sqlite = gr.below(4) == 0;
    let n_ticks = 8 + gr.below(2 * (max_retry as u64 + 3)) as usize;
    let restart_at: Option<usize> = if gr.below(4) == 0 { Some(2 + gr.below(n_ticks as u64 - 2) as usize) } else { None };
    let redo_at: Option<usize> = if gr.below(3) == 0 { Some(n_ticks / 2 + gr.below((n_ticks / 2) as u64) as usize) } else { None };
    let clear_at: Option<usize> = if gr.below(6) == 0 { Some(n_ticks / 2 + gr.below((n_ticks / 2) as u64) as usize) } else { None };
    let stall: Option<(usize, i64)> = if gr.below(5) == 0 { Some((1 + gr.below(n_ticks as u64 - 1) as usize, gr.range(2, 4) * tick * 1_000_000)) } else { None };
    // which interrupts are answered, and after which tick
    let mut answer_after: BTreeMap<String, usize> = BTreeMap::new();
    // an action that the engine refuses (error without ecode) on a still open interrupt, at a seeded tick
    let mut refused_at: BTreeMap<String, usize> = BTreeMap::new();
    let mut acts = vec![];
    let mut ack_by_key = BTreeMap::new();
    for i in 0..n_acts {
        let key = format!("k{}", i);
        // all interrupts of a parallel block are open at once
        acts.push(MAct { id: format!("a{}", i), key: key.clone(), kind: ActKind::Irq, ..Default::default() });
        if gr.below(2) == 0 {
            answer_after.insert(key.clone(), gr.below(n_ticks as u64) as usize);
        }
        if gr.below(3) == 0 {
            refused_at.insert(key.clone(), gr.below(n_ticks as u64) as usize);
        }
        let pol = match gr.below(6) {
            0 => "now".to_string(),
            1 => "twice".to_string(),
            2 => format!("later:{}", 1 + gr.below(3)),
            _ => "never".to_string(),
        };
        ack_by_key.insert(key, pol);
    }
    let knobs = random_knobs(&mut gr);
    let sc = ctx.scenario(|_| {
        let mut sc = Scenario::default();
        let block = MAct { id: "blk".into(), kind: ActKind::Block { sequence: false, acts: acts.clone() }, ..Default::default() };
        sc.models.push(MWorkflow { id: "m".into(), steps: vec![MStep { id: "s1".into(), acts: vec![block], ..Default::default() }, MStep { id: "s2".into(), acts: vec![MAct { id: "mm".into(), key: "m_end".into(), kind: ActKind::Msg, ..Default::default() }], ..Default::default() }], ..Default::default() });
        sc.starts.push(Start { model: "m".into(), vars: serde_json::Map::new(), pid: Some("p1".into()), at_q: 0 });
        sc.channels = vec![ChanSpec { label: "ack".into(), id: "ackchan".into(), ack: true, typ: "*".into(), state: "*".into(), tag: "*".into(), key: "*".into(), uses: "*".into() }];
        sc.client.ack_by_key = ack_by_key.clone();
        sc.client.ack = "never".into();
        sc.engine.keep_processes = true;
        sc.engine.tick_interval_secs = tick;
        sc.engine.max_message_retry_times = max_retry;
        sc.engine.store = if sqlite { "sqlite".into() } else { "mem".into() };
        sc.knobs = knobs.clone();
        sc.capture = true;
        if let Some(t) = restart_at {
            sc.faults.push(FaultOp { at_q: t, kind: "restart".into(), arg: 0 });
        }
        if let Some((t, us)) = stall {
            sc.faults.push(FaultOp { at_q: t, kind: "jump".into(), arg: us });
        }
        sc
    });
    let max_retry = sc.engine.max_message_retry_times;
    let restart_at = sc.faults.iter().find(|f| f.kind == "restart").map(|f| f.at_q);
    let stall = sc.faults.iter().find(|f| f.kind == "jump").map(|f| (f.at_q, f.arg));
    let ans = answer_after.clone();
    let refused = refused_at.clone();
    let rec = ctx.run_with(&sc, move |w| {
        let mut refused_done: std::collections::BTreeSet<String> = Default::default();
        w.rec.lock().unwrap().record_store_calls = true;
        if let Err(e) = w.deploy_all() {
            w.rec.lock().unwrap().rec.panics.push(format!("deploy: {e}"));
            return;
        }
        let starts = w.sc.starts.clone();
        for s in &starts {
            w.start(s);
        }
        let mut tick_no = 0usize;
        loop {
            if w.settle() == vsim::Outcome::StepCap {
                break;
            }
            w.capture("");
            w.qidx += 1;
            // answers that are due
            let due: Vec<crate::world::OpenAct> = {
                let mut g = w.rec.lock().unwrap();
                let mut out = vec![];
                let mut i = 0;
                while i < g.open.len() {
                    let k = g.open[i].key.clone();
                    if ans.get(&k).map(|t| *t <= tick_no).unwrap_or(false) {
                        out.push(g.open.remove(i));
                    } else {
                        i += 1;
                    }
                }
                out
            };
            // refused actions on interrupts that stay open
            let to_refuse: Vec<crate::world::OpenAct> = {
                let g = w.rec.lock().unwrap();
                g.open.iter().filter(|o| refused.get(&o.key).map(|t| *t <= tick_no).unwrap_or(false) && !refused_done.contains(&o.key)).cloned().collect()
            };
            for oa in to_refuse {
                refused_done.insert(oa.key.clone());
                let engine = w.engine().clone();
                // `error` without an error code is refused inside the task's update
                crate::world::do_action(&engine, &w.rec, &oa.pid, &oa.tid, "error", &serde_json::Map::new(), &oa.key, "client", true);
            }
            if !due.is_empty() {
                for oa in due {
                    let engine = w.engine().clone();
                    crate::world::do_action(&engine, &w.rec, &oa.pid, &oa.tid, "complete", &serde_json::Map::new(), &oa.key, "client", true);
                }
                continue;
            }
            if tick_no >= n_ticks {
                break;
            }
            tick_no += 1;
            if Some(tick_no) == restart_at {
                w.restart();
                continue;
            }
            if let Some((t, us)) = stall {
                if t == tick_no {
                    vsim::jump_us(us);
                    vsim::log(&format!("JUMP {}us", us));
                    w.rec.lock().unwrap().rec.count("fault.jump");
                }
            }
            if Some(tick_no) == redo_at {
                let seq = vsim::bump_seq();
                let _ = w.engine().executor().msg().redo();
                vsim::log("REDO");
                let mut g = w.rec.lock().unwrap();
                g.rec.ops.push(OpRec { seq, qidx: 0, op: "redo".into(), detail: String::new() });
            }
            if Some(tick_no) == clear_at {
                let seq = vsim::bump_seq();
                let _ = w.engine().executor().msg().clear(None);
                vsim::log("CLEAR");
                let mut g = w.rec.lock().unwrap();
                g.rec.ops.push(OpRec { seq, qidx: 0, op: "clear".into(), detail: String::new() });
            }
            if !w.tick() {
                break;
            }
        }
        // copy the store call log into the record (as ops)
        let mut g = w.rec.lock().unwrap();
        let calls = std::mem::take(&mut g.store_calls);
        for (seq, col, op, id) in calls {
            if col == "messages" {
                g.rec.ops.push(OpRec { seq, qidx: 0, op: format!("store_{}", op), detail: id });
            }
        }
    });
    let mut out = CaseOut { scenario: Some(sc.clone()), ..Default::default() };
    if discard_if_broken(&rec, &mut out) {
        return out;
    }
    if sqlite {
        ctx.count("probe.sqlite", 1);
    }
    if rec.counters.get("fault.restart").copied().unwrap_or(0) > 0 {
        ctx.count("probe.restart", 1);
    }
    let store = sc.engine.store.clone();
    let mut v: Vec<Violation> = vec![];
    // start / complete / error events are stored by an acknowledging channel too and are redelivered
    // through the message handler: all four handler kinds belong to one delivery history per id
    let deliveries: Vec<&MsgRec> = rec.msgs.iter().filter(|m| m.chan == "ack").collect();
    let mut by_id: BTreeMap<String, Vec<&MsgRec>> = BTreeMap::new();
    for d in &deliveries {
        by_id.entry(d.id.clone()).or_default().push(d);
    }
    let ticks: Vec<u64> = rec.ops.iter().filter(|o| o.op == "tick").map(|o| o.seq).collect();
    let redos: Vec<u64> = rec.ops.iter().filter(|o| o.op == "redo").map(|o| o.seq).collect();
    let clears: Vec<u64> = rec.ops.iter().filter(|o| o.op == "clear").map(|o| o.seq).collect();
    if !redos.is_empty() {
        ctx.count("probe.redo", 1);
    }
    if !clears.is_empty() {
        ctx.count("probe.clear", 1);
    }
    let mut any_redelivery = false;
    let mut any_closed = false;
    for (id, list) in &by_id {
        let first = list[0];
        let sig = |what: &str| json!({"what": what, "store": store});
        // R1: stored before the handler runs
        let created = rec.ops.iter().find(|o| o.op == "store_create" && &o.detail == id).map(|o| o.seq);
        match created {
            Some(c) if c < first.seq => {}
            _ => {
                v.push(Violation::new("C09", "not_stored_before_handler", sig("create_order"), format!("message {} ({} {}) reached the handler at seq {} but its row was created at {:?}", id, first.key, first.state, first.seq, created)));
                break;
            }
        }
        // the instant this message was acknowledged / closed by an action on its task
        let ack_seq = rec.ops.iter().filter(|o| o.op == "ack" && &o.detail == id).map(|o| o.seq).min();
        // an action closes the messages of its task that exist at that moment (the task's own
        // terminal message is generated by the action and is a new message)
        let close_seq = rec.actions.iter().filter(|a| a.ok && a.pid == first.pid && a.tid == first.tid && a.seq0 > first.seq).map(|a| a.seq1).min();
        if ack_seq.is_some() {
            ctx.count("probe.acked", 1);
            any_closed = true;
            if rec.ops.iter().filter(|o| o.op == "ack" && &o.detail == id).count() >= 2 {
                ctx.count("probe.ack_twice", 1);
            }
            if list.iter().filter(|d| d.seq < ack_seq.unwrap()).count() >= 2 {
                ctx.count("probe.late_ack", 1);
            }
        }
        if rec.actions.iter().any(|a| !a.ok && a.pid == first.pid && a.tid == first.tid && a.seq0 > first.seq) {
            ctx.count("probe.refused_action_on_open_task", 1);
        }
        if close_seq.is_some() {
            ctx.count("probe.closed_by_action", 1);
            any_closed = true;
        }
        // R2: same content, retry counts grow by one, never above the maximum (restarting after a redo)
        let mut expect_retry = 0;
        let mut last_seq = 0u64;
        for d in list {
            if redos.iter().any(|r| *r > last_seq && *r < d.seq) && d.retry != expect_retry {
                expect_retry = 1;
            }
            if d.retry != expect_retry {
                v.push(Violation::new("C09", "retry_count_not_consecutive", sig("retry"), format!("message {} ({}): delivery at seq {} has retry_times {} (expected {}, deliveries so far {:?})", id, first.key, d.seq, d.retry, expect_retry, list.iter().map(|x| x.retry).collect::<Vec<_>>())));
                break;
            }
            if d.retry > max_retry {
                v.push(Violation::new("C09", "retry_count_above_maximum", sig("max"), format!("message {} ({}): retry_times {} above the configured maximum {}", id, first.key, d.retry, max_retry)));
                break;
            }
            if d.retry > 0 {
                any_redelivery = true;
                ctx.count("probe.redelivery", 1);
            }
            if d.retry == max_retry {
                ctx.count("probe.reached_max_retries", 1);
            }
            if (d.key.as_str(), d.state.as_str(), d.tid.as_str(), d.pid.as_str(), d.nid.as_str(), &d.inputs, &d.outputs) != (first.key.as_str(), first.state.as_str(), first.tid.as_str(), first.pid.as_str(), first.nid.as_str(), &first.inputs, &first.outputs) {
                v.push(Violation::new("C09", "redelivery_content_differs", sig("content"), format!("message {} ({}): the redelivery at seq {} differs from the first delivery", id, first.key, d.seq)));
                break;
            }
            // R3: silent after ack / close: the delivery must come from a tick that started before that instant
            let origin_tick = ticks.iter().filter(|t| **t < d.seq).last().copied().unwrap_or(0);
            for (what, when) in [("ack", ack_seq), ("action", close_seq)] {
                if let Some(w) = when {
                    if d.retry > 0 && origin_tick > w {
                        v.push(Violation::new("C09", "redelivered_after_close", json!({"closed_by": what, "store": store}), format!("message {} ({}): redelivered (retry {}) by the tick at seq {} although it was closed by {} at seq {}", id, first.key, d.retry, origin_tick, what, w)));
                        break;
                    }
                }
            }
            if !v.is_empty() {
                break;
            }
            expect_retry = d.retry + 1;
            last_seq = d.seq;
        }
        if !v.is_empty() {
            break;
        }
        // R4/R5: statuses in the store never move back
        let mut prev_status = String::new();
        let mut prev_q = 0u64;
        for q in &rec.qpoints {
            let Some(row) = q.msg_rows.iter().find(|r| &r.id == id) else { continue };
            let st = row.status.clone();
            let redo_between = redos.iter().any(|r| *r > prev_q && *r <= q.seq);
            let bad = match (prev_status.as_str(), st.as_str()) {
                ("acked", "created") | ("acked", "error") => true,
                ("completed", "created") | ("completed", "error") | ("completed", "acked") => false || st != "acked",
                ("error", "created") => !redo_between,
                _ => false,
            };
            if bad {
                v.push(Violation::new("C09", "status_moved_back", json!({"from": prev_status, "to": st, "store": store}), format!("message {} ({}): stored status went {} -> {} at quiescent point {}", id, first.key, prev_status, st, q.idx)));
                break;
            }
            // closed without a cause: neither acknowledged nor acted on (successfully), yet not `created` any more
            if (st == "completed" || st == "acked") && ack_seq.map(|a| a > q.seq).unwrap_or(true) && close_seq.map(|c| c > q.seq).unwrap_or(true) {
                let refused_action = rec.actions.iter().any(|a| !a.ok && a.pid == first.pid && a.tid == first.tid && a.seq1 <= q.seq);
                v.push(Violation::new("C09", "closed_without_cause", json!({"status": st, "after_refused_action": refused_action, "store": store}), format!("message {} ({}): stored status is {} at quiescent point {} although it was neither acknowledged nor closed by a successful action on its task", id, first.key, st, q.idx)));
                break;
            }
            // acknowledged => the row says so at the next quiescent point
            if let Some(a) = ack_seq {
                if a < q.seq && st == "created" {
                    v.push(Violation::new("C09", "ack_not_recorded", sig("ack_row"), format!("message {} ({}) was acknowledged at seq {} but its row is still `created` at quiescent point {}", id, first.key, a, q.idx)));
                    break;
                }
            }
            if row.retry_times > max_retry {
                v.push(Violation::new("C09", "retry_count_above_maximum", sig("row"), format!("message {} ({}): stored retry_times {} above the maximum {}", id, first.key, row.retry_times, max_retry)));
                break;
            }
            prev_status = st;
            prev_q = q.seq;
        }
        if !v.is_empty() {
            break;
        }
        // at-least-once: an open, unacknowledged message is redelivered when enough ticks pass
        if ack_seq.is_none() && close_seq.is_none() && clears.is_empty() && restart_at.is_none() {
            let ticks_after = ticks.iter().filter(|t| **t > first.seq).count();
            if ticks_after >= 4 && list.len() < 2 && max_retry >= 1 {
                v.push(Violation::new("C09", "never_redelivered", sig("liveness"), format!("message {} ({}) was neither acknowledged nor closed, {} ticks passed after its first delivery, yet it was never redelivered", id, first.key, ticks_after)));
                break;
            }
        }
    }
    out.violations = v;
    out.nontrivial = any_redelivery && any_closed;
    out.outcome_hash = outcome_hash(&rec);
    out.sample = basic_sample(&sc, &rec, json!({"tick_interval_secs": tick, "max_retry": max_retry, "deliveries": deliveries.len(), "ids": by_id.len(), "ack_policies": sc.client.ack_by_key, "answer_after_tick": answer_after, "redo_at": redo_at, "clear_at": clear_at, "restart_at": restart_at, "simulated_s": rec.sim_time_us / 1_000_000}));
    let _ = completer_for;
    out
}

// ---------------------------------------------------------------------------------------------
// part (b), layer 2: a client thread acknowledges messages while the engine's thread is inside the tick that
// redelivers them

pub fn def_b() -> CheckDef {
    CheckDef {
        id: "C09b",
        title: "Acknowledged delivery: an acknowledgement is not lost to a tick that runs at the same time (layer 2)",
        case: case_b,
        rule: "case = a process with 2..5 interrupts open at once on an acknowledging channel whose handler does not acknowledge x the clock jumps past the staleness threshold x two virtual threads: the executor (on which the due tick fires and redelivers the un-acknowledged messages: query, then per message update + emit) and a client thread that acknowledges 1..all of the messages in a seeded order; the baton moves at intercepted engine lock acquisitions (preemption 10% / 50% / 90%), so an acknowledgement lands between the tick's query and its update of the same message x in-memory and SQLite store; afterwards 3..6 further ticks on layer 1. Oracle: a message whose acknowledgement has returned is never delivered by a tick that started after that return, and its stored status is `acked` (never back to created / error) at every later quiescent point. non-trivial = at least one acknowledgement overlapped the tick (a redelivery of some message happened between the first invoke and the last return); distinct = distinct (scenario hash, schedule hash)",
        level: "exploration",
        assumptions: &["preemption happens at engine lock acquisitions (the collections of the in-memory store and the emitter's handler maps are behind these locks; on SQLite a store call is atomic and the switch happens between calls)", "virtual threads are real OS threads released one at a time; the interleaving is the decision trace", "monotone simulated clock"],
        probes: &["probe.ack_overlapped_the_tick", "probe.sqlite", "probe.redelivered_in_the_race", "probe.all_messages_acked"],
        quick_cases: 1500,
        no_shrink: &[],
    }
}

pub fn case_b(ctx: &mut CaseCtx) -> CaseOut {
    let sc = ctx.scenario(|gr| {
        let n_acts = 2 + gr.below(4) as usize;
        let mut acts = vec![];
        for i in 0..n_acts {
            acts.push(MAct { id: format!("a{}", i), key: format!("k{}", i), kind: ActKind::Irq, ..Default::default() });
        }
        let mut sc = Scenario::default();
        let block = MAct { id: "blk".into(), kind: ActKind::Block { sequence: false, acts }, ..Default::default() };
        sc.models.push(MWorkflow { id: "m".into(), steps: vec![MStep { id: "s1".into(), acts: vec![block], ..Default::default() }], ..Default::default() });
        sc.starts.push(Start { model: "m".into(), vars: serde_json::Map::new(), pid: Some("p1".into()), at_q: 0 });
        sc.channels = vec![ChanSpec { label: "ack".into(), id: "ackchan".into(), ack: true, typ: "*".into(), state: "*".into(), tag: "*".into(), key: "*".into(), uses: "*".into() }];
        sc.client.ack = "never".into();
        sc.client.default = Reaction::of("none");
        sc.engine.keep_processes = true;
        sc.engine.tick_interval_secs = 1;
        sc.engine.max_message_retry_times = 20;
        sc.engine.store = if gr.below(3) == 0 { "sqlite".into() } else { "mem".into() };
        sc.knobs = random_knobs(gr);
        sc.capture = true;
        // preemption rate, how many messages the client acknowledges, later ticks: carried in the scenario
        sc.pre_jump_us = *gr.pick(&[100i64, 500, 900]);
        sc.max_ops = 1 + gr.below(n_acts as u64) as u32;
        sc.ticks = 3 + gr.below(4) as u32;
        sc
    });
    let preempt = sc.pre_jump_us.clamp(1, 950) as u32;
    let n_ack = sc.max_ops.max(1) as usize;
    let later_ticks = sc.ticks.max(1);
    let acks: std::sync::Arc<std::sync::Mutex<Vec<(String, u64, u64, bool)>>> = Default::default();
    let acks2 = acks.clone();
    let stats: std::sync::Arc<std::sync::Mutex<(u64, u64, Option<String>, bool, u64)>> = Default::default();
    let stats2 = stats.clone();
    let mut sc_run = sc.clone();
    sc_run.pre_jump_us = 0;
    sc_run.ticks = 0;
    let rec = ctx.run_with(&sc_run, move |w| {
        if let Err(e) = w.deploy_all() {
            w.rec.lock().unwrap().rec.panics.push(format!("deploy: {e}"));
            return;
        }
        let starts = w.sc.starts.clone();
        for s in &starts {
            w.start(s);
        }
        w.settle();
        w.capture("before the race");
        w.qidx += 1;
        // the messages of the open interrupts, in a seeded order
        let mut ids: Vec<String> = w.rec.lock().unwrap().rec.msgs.iter().filter(|m| m.via == "message" && m.typ == "act" && m.state == "created" && m.key.starts_with('k')).map(|m| m.id.clone()).collect();
        ids.sort();
        ids.dedup();
        let mut order: Vec<String> = vec![];
        while !ids.is_empty() {
            let i = vsim::choose(vsim::site::CLIENT, ids.len() as u32) as usize;
            order.push(ids.remove(i));
        }
        order.truncate(n_ack);
        // the messages become stale: the tick that is due redelivers them
        vsim::jump_us(2_100_000);
        let race_start = vsim::seq();
        vsim::vthread::begin(preempt);
        let engine = w.engine().clone();
        let epoch = w.epoch;
        let acks3 = acks2.clone();
        let h = vsim::vthread::spawn("acker", move || {
            vsim::set_epoch(epoch);
            for id in order {
                let s0 = vsim::bump_seq();
                let ok = engine.executor().msg().ack(&id).is_ok();
                let s1 = vsim::bump_seq();
                vsim::log(&format!("ACK {} -> {}", id, ok));
                acks3.lock().unwrap().push((id, s0, s1, ok));
            }
        });
        let (_n, ok) = crate::layer2::run_executor_with_threads(100_000);
        let st = vsim::vthread::end();
        let _ = h.join();
        *stats2.lock().unwrap() = (st.points, st.switches, st.deadlock, ok, race_start);
        w.settle();
        w.capture("after the race");
        w.qidx += 1;
        // later ticks, on layer 1
        for _ in 0..later_ticks {
            vsim::jump_us(1_200_000);
            if !w.tick() {
                break;
            }
            if w.settle() == vsim::Outcome::StepCap {
                break;
            }
            w.capture("");
            w.qidx += 1;
        }
    });
    let mut out = CaseOut { scenario: Some(sc.clone()), ..Default::default() };
    let st = stats.lock().unwrap().clone();
    if let Some(d) = &st.2 {
        out.violations.push(Violation::new("C09", "engine_lock_deadlock", json!({"threads": true}), format!("the engine deadlocked on its own locks while a client thread acknowledged messages: {}", d)));
        return out;
    }
    if discard_if_broken(&rec, &mut out) {
        return out;
    }
    if !st.3 {
        out.discarded = Some("threads did not settle".into());
        return out;
    }
    ctx.count("layer2.sched_points", st.0);
    ctx.count("layer2.switches", st.1);
    if sc.engine.store == "sqlite" {
        ctx.count("probe.sqlite", 1);
    }
    let acks = acks.lock().unwrap().clone();
    let race_start = st.4;
    let first_invoke = acks.iter().map(|a| a.1).min().unwrap_or(0);
    let last_return = acks.iter().map(|a| a.2).max().unwrap_or(0);
    let race_deliveries: Vec<&MsgRec> = rec.msgs.iter().filter(|m| m.via == "message" && m.seq > race_start && m.retry > 0).collect();
    if !race_deliveries.is_empty() {
        ctx.count("probe.redelivered_in_the_race", 1);
    }
    let overlapped = race_deliveries.iter().any(|m| m.seq > first_invoke && m.seq < last_return);
    if overlapped {
        ctx.count("probe.ack_overlapped_the_tick", 1);
    }
    let n_irq = rec.msgs.iter().filter(|m| m.via == "message" && m.typ == "act" && m.state == "created" && m.retry == 0 && m.key.starts_with('k')).count();
    if acks.len() == n_irq {
        ctx.count("probe.all_messages_acked", 1);
    }
    // the later ticks all start after every acknowledgement has returned
    let later: Vec<u64> = rec.ops.iter().filter(|o| o.op == "tick").map(|o| o.seq).collect();
    let mut v = vec![];
    for (id, _s0, s1, ok) in &acks {
        if !ok {
            continue;
        }
        if let Some(first_later) = later.first() {
            if let Some(m) = rec.msgs.iter().find(|m| &m.id == id && m.via == "message" && m.seq > *first_later) {
                v.push(Violation::new("C09", "acknowledged_message_redelivered_under_race", json!({"store": sc.engine.store}), format!("message {} (key {}) was acknowledged (the call returned at seq {}) while the tick was redelivering; a later tick (started at seq {}) delivered it again at seq {} with retry {}", id, m.key, s1, first_later, m.seq, m.retry)));
                break;
            }
        }
        // stored status at the quiescent points after the race
        for q in rec.qpoints.iter().filter(|q| q.seq > *s1) {
            if let Some(row) = q.msg_rows.iter().find(|r| &r.id == id) {
                if row.status != "acked" && row.status != "completed" {
                    v.push(Violation::new("C09", "acknowledgement_lost_under_race", json!({"store": sc.engine.store, "status": row.status}), format!("message {} was acknowledged (the call returned Ok at seq {}) while the tick was redelivering it; at quiescent point {} its stored status is `{}` with retry {} - the tick wrote its stale copy of the row over the acknowledgement", id, s1, q.idx, row.status, row.retry_times)));
                    break;
                }
            }
        }
        if !v.is_empty() {
            break;
        }
    }
    out.violations = v;
    out.nontrivial = overlapped;
    out.outcome_hash = outcome_hash(&rec);
    out.sample = basic_sample(&sc, &rec, json!({"preempt_permille": preempt, "acknowledged": acks.len(), "lock_sched_points": st.0, "baton_switches": st.1, "later_ticks": later.len()}));
    out
}
