//! C05 — Client actions: admission rules and at-most-once effect.
//! Part (a), layer 1: the action x task-state admission matrix, judged between two quiescent points.
use super::common::*;
use crate::checks::*;
use crate::imgx;
use crate::obs::*;
use crate::scenario::*;
use serde_json::{json, Value};

pub fn def() -> CheckDef {
    CheckDef {
        id: "C05",
        title: "Client actions: admission rules and at-most-once effect",
        case,
        rule: "case = generated model x scripted client (all action kinds, duplicates, missing declared outputs, extra keys) x adversary that, at quiescent points, aims any of the ten actions at any task ever seen (open act, terminal act in each terminal state, step, branch, root, unknown tid, unknown pid, finished process) x seeded schedule; every action issued at a quiescent point is judged against the live dump before it (necessary admission conditions => Err) and, when rejected, the live dump, the rows and the streams before/after must be identical. non-trivial = at least one action was rejected and one accepted and a terminal act was targeted; distinct = distinct (scenario hash, schedule hash)",
        level: "exploration",
        assumptions: &["monotone simulated clock", "actions are judged at quiescent points (layer 1); racing client threads are the layer-2 part of this check", "no storage errors are injected"],
        probes: &["probe.terminal_act_targeted", "probe.non_act_targeted", "probe.unknown_id", "probe.missing_output", "probe.rejected_checked_for_effects", "probe.duplicate_action"],
        quick_cases: 5000,
        no_shrink: &[],
    }
}

const OPTS: LifeOpts = LifeOpts {
    catches: true,
    scripted_actions: &["cancel_prev", "complete", "submit", "skip", "abort", "error", "back", "cancel", "remove"],
    p_scripted: 400,
    adversary: Some((450, 16, &TEN)),
    dup: true,
    generators: true,
    hooks: false,
    outputs: true, drop_outputs: true
};

pub fn case(ctx: &mut CaseCtx) -> CaseOut {
    let sc = ctx.scenario(|r| {
        let mut s = gen_lifecycle(r, &OPTS);
        s.client.mode = "sequential".into();
        s.engine.keep_processes = r.below(4) != 0;
        s
    });
    let rec = ctx.run(&sc);
    let mut out = CaseOut { scenario: Some(sc.clone()), ..Default::default() };
    if discard_if_broken(&rec, &mut out) {
        return out;
    }
    let (v, probes) = admission_oracle(&sc, &rec);
    out.violations = v;
    for (k, n) in &probes {
        if *n > 0 {
            ctx.count(k, 1);
        }
    }
    if rec.actions.windows(2).any(|w| w[0].tid == w[1].tid && w[0].action == w[1].action && w[0].pid == w[1].pid) {
        ctx.count("probe.duplicate_action", 1);
    }
    let accepted = rec.actions.iter().any(|a| a.ok);
    let rejected = rec.actions.iter().any(|a| !a.ok);
    out.nontrivial = accepted && rejected && probes.iter().any(|(k, n)| *k == "probe.terminal_act_targeted" && *n > 0);
    out.outcome_hash = outcome_hash(&rec);
    out.sample = basic_sample(&sc, &rec, json!({}));
    out
}

fn strip_times(p: &ProcImg) -> Value {
    // everything a client can observe of a process, without volatile bookkeeping
    json!({
        "state": p.state, "err": p.err, "env": p.env,
        "tasks": p.tasks.iter().map(|t| json!({"tid": t.tid, "state": t.state, "prev": t.prev, "data": t.data, "err": t.err})).collect::<Vec<_>>()
    })
}

pub fn admission_oracle(sc: &Scenario, rec: &RunRecord) -> (Vec<Violation>, Vec<(&'static str, u32)>) {
    let mut out = vec![];
    let mut p_term = 0;
    let mut p_nonact = 0;
    let mut p_unknown = 0;
    let mut p_missing = 0;
    let mut p_effects = 0;
    let client_chan = sc.channels[0].label.clone();
    for (ai, a) in rec.actions.iter().enumerate() {
        if !a.at_quiescence {
            continue;
        }
        // quiescent point right before the action, and the next one after it
        let Some(qb) = rec.qpoints.iter().rev().find(|q| q.seq <= a.seq0) else { continue };
        let qa = rec.qpoints.iter().find(|q| q.seq >= a.seq1);
        // several actions between the same two points (duplicates): only the first is bracketed exactly
        let first_in_bracket = !rec.actions[..ai].iter().any(|b| b.seq0 >= qb.seq);
        let finished = rec.msgs.iter().any(|m| (m.via == "complete" || m.via == "error") && m.chan == client_chan && m.pid == a.pid && m.seq <= a.seq0);
        let proc_b = qb.live.iter().find(|p| p.pid == a.pid);
        let row_b = qb.rows.iter().find(|p| p.pid == a.pid);
        let task_b = proc_b.and_then(|p| imgx::task(p, &a.tid)).or_else(|| row_b.and_then(|p| imgx::task(p, &a.tid)));
        let seven = SEVEN.contains(&a.action.as_str());
        // necessary conditions
        let mut must_reject: Option<(String, String)> = None; // (reason, target class)
        if first_in_bracket {
            if proc_b.is_none() && row_b.is_none() {
                p_unknown += 1;
                must_reject = Some(("no such live process".into(), if finished { "finished_process".into() } else { "unknown_pid".into() }));
            } else if task_b.is_none() {
                p_unknown += 1;
                must_reject = Some(("no such task".into(), "unknown_tid".into()));
            } else if let Some(t) = task_b {
                if a.action == "push" {
                    if t.kind != "step" {
                        p_nonact += 1;
                        must_reject = Some(("push needs a step".into(), format!("{}_task", t.kind)));
                    }
                } else if t.kind != "act" {
                    p_nonact += 1;
                    must_reject = Some(("the task is not an act".into(), format!("{}_task", t.kind)));
                } else {
                    if is_terminal_state(&t.state) {
                        p_term += 1;
                        if seven {
                            must_reject = Some(("the act is already terminal".into(), format!("terminal_act:{}", t.state)));
                        }
                    }
                    if must_reject.is_none() {
                        if let Some(m) = find_act(&sc.models, &t.nid) {
                            let missing: Vec<&String> = m.outputs.iter().filter(|k| a.options.get(k.as_str()).is_none()).collect();
                            if !missing.is_empty() {
                                p_missing += 1;
                                must_reject = Some(("a declared output is missing".into(), "open_act_missing_output".into()));
                            }
                        }
                    }
                }
            }
        }
        if let Some((reason, target)) = &must_reject {
            if a.ok {
                out.push(Violation::new(
                    "C05",
                    "inadmissible_action_accepted",
                    json!({"action": a.action, "target": target}),
                    format!("`{}` on task {} of {} was accepted although {} (issued by {} at seq {})", a.action, a.tid, a.pid, reason, a.by, a.seq0),
                ));
                return (out, vec![]);
            }
        }
        // a rejected action changes nothing
        if !a.ok && seven && first_in_bracket {
            if let Some(qa) = qa {
                let only_one = rec.actions.iter().filter(|b| b.seq0 >= qb.seq && b.seq1 <= qa.seq).count() == 1;
                if only_one {
                    p_effects += 1;
                    let lb: Vec<Value> = qb.live.iter().map(strip_times).collect();
                    let la: Vec<Value> = qa.live.iter().map(strip_times).collect();
                    let rb: Vec<Value> = qb.rows.iter().map(strip_times).collect();
                    let ra: Vec<Value> = qa.rows.iter().map(strip_times).collect();
                    let new_msgs = rec.msgs.iter().filter(|m| m.seq > a.seq0 && m.seq <= qa.seq).count();
                    let new_trans = rec.trans.iter().filter(|t| t.seq > a.seq0 && t.seq <= qa.seq && !t.pure_write).count();
                    let mut what = vec![];
                    if lb != la {
                        what.push("live tasks");
                    }
                    if rb != ra {
                        what.push("stored rows");
                    }
                    if new_msgs > 0 {
                        what.push("messages");
                    }
                    if new_trans > 0 {
                        what.push("state writes");
                    }
                    if !what.is_empty() {
                        out.push(Violation::new(
                            "C05",
                            "rejected_action_had_effect",
                            json!({"action": a.action, "changed": what}),
                            format!("`{}` on task {} of {} returned an error ({}) but changed {:?} (seq {}..{})", a.action, a.tid, a.pid, a.err.chars().take(80).collect::<String>(), what, a.seq0, qa.seq),
                        ));
                        return (out, vec![]);
                    }
                }
            }
        }
    }
    (
        out,
        vec![
            ("probe.terminal_act_targeted", p_term),
            ("probe.non_act_targeted", p_nonact),
            ("probe.unknown_id", p_unknown),
            ("probe.missing_output", p_missing),
            ("probe.rejected_checked_for_effects", p_effects),
        ],
    )
}

// ---------------------------------------------------------------------------------------------
// Part (b), layer 2: 2..8 client threads issue the same action on the same open act under
// preemptive schedules (baton handed over at intercepted engine lock operations).

pub fn def_b() -> CheckDef {
    CheckDef {
        id: "C05b",
        title: "Client actions: at-most-once effect among racing client threads (layer 2)",
        case: case_b,
        rule: "case = a small model with an open interrupt (optionally with declared outputs, followed by another act / step / nothing) x 2..8 virtual client threads that all issue the same action (complete / submit / skip / abort / error / remove) on that act - or, in a third of the cases, each its own closing action x preemption probability at engine lock points in {1%, 10%, 50%} x seeded choice of the thread that gets the baton; the executor runs as one more virtual thread. Over the invoke/return history: exactly one call returns Ok; after quiescence the successor has exactly one task instance and the act has exactly one terminal message. non-trivial = at least two client threads were inside their call at the same time (a baton switch happened between an invoke and its return); distinct = distinct (scenario hash, schedule hash)",
        level: "exploration",
        assumptions: &["preemption happens at engine lock acquisitions (all shared engine state is behind these locks)", "virtual threads are real OS threads released one at a time; the interleaving is the decision trace", "monotone simulated clock"],
        probes: &["probe.overlapping_calls", "probe.forced_switch", "probe.eight_threads", "probe.action_complete", "probe.action_other", "probe.threads_with_different_actions"],
        quick_cases: 2000,
        no_shrink: &[],
    }
}

pub fn case_b(ctx: &mut CaseCtx) -> CaseOut {
    use crate::model::*;
    let mut gr = vsim::rng::Rng::new(vsim::rng::mix(&[ctx.case_seed, 0xc05b]));
    let m_threads = *gr.pick(&[2usize, 2, 3, 4, 8]);
    let action = gr.pick(&["complete", "complete", "complete", "submit", "skip", "abort", "error", "remove"]).to_string();
    let preempt = *gr.pick(&[10u32, 100, 500]);
    // `error` on an act that declares outputs is always rejected (the options are cut down to the declared
    // outputs, which drops `ecode`): not a race subject
    let with_outputs = gr.below(3) == 0 && action != "error";
    let tail = gr.below(3);
    // a third of the cases: every thread closes the act in its own way (complete / submit / skip / abort / remove) -
    // still exactly one of them can win
    let mixed: Vec<String> = if gr.below(3) == 0 && action != "error" { (0..m_threads).map(|_| gr.pick(&["complete", "submit", "skip", "abort", "remove"]).to_string()).collect() } else { vec![] };
    let sc = ctx.scenario(|_| {
        let mut sc = Scenario::default();
        let mut a1 = MAct { id: "a1".into(), key: "k1".into(), kind: ActKind::Irq, ..Default::default() };
        if with_outputs {
            a1.outputs = vec!["o1".into()];
        }
        let mut acts = vec![a1];
        if tail == 0 {
            acts.push(MAct { id: "a2".into(), key: "k2".into(), kind: ActKind::Irq, ..Default::default() });
        } else if tail == 1 {
            acts.push(MAct { id: "a2".into(), key: "m2".into(), kind: ActKind::Msg, ..Default::default() });
        }
        sc.models.push(MWorkflow { id: "m".into(), steps: vec![MStep { id: "s1".into(), acts, ..Default::default() }, MStep { id: "s2".into(), acts: vec![MAct { id: "a3".into(), key: "k3".into(), kind: ActKind::Irq, ..Default::default() }], ..Default::default() }], ..Default::default() });
        sc.starts.push(Start { model: "m".into(), vars: serde_json::Map::new(), pid: Some("p1".into()), at_q: 0 });
        sc.engine.keep_processes = true;
        sc.client.default = Reaction::of("none");
        sc.capture = true;
        sc.knobs.policy = "random".into();
        sc
    });
    let act = action.clone();
    let mixed2 = mixed.clone();
    if !mixed.is_empty() {
        ctx.count("probe.threads_with_different_actions", 1);
    }
    let stats: std::sync::Arc<std::sync::Mutex<(u64, u64, u64, Option<String>, bool)>> = Default::default();
    let stats2 = stats.clone();
    let rec = ctx.run_with(&sc, move |w| {
        if let Err(e) = w.deploy_all() {
            w.rec.lock().unwrap().rec.panics.push(format!("deploy: {e}"));
            return;
        }
        let starts = w.sc.starts.clone();
        for s in &starts {
            w.start(s);
        }
        w.settle();
        w.capture("before race");
        w.qidx += 1;
        let oa = {
            let g = w.rec.lock().unwrap();
            g.open.iter().find(|o| o.key == "k1").cloned()
        };
        let Some(oa) = oa else { return };
        let mut opts = serde_json::Map::new();
        if w.sc.models[0].steps[0].acts[0].outputs.contains(&"o1".to_string()) {
            opts.insert("o1".into(), serde_json::json!(5));
        }
        if act == "error" {
            opts.insert("ecode".into(), serde_json::json!("e1"));
            opts.insert("message".into(), serde_json::json!("boom"));
        }
        vsim::vthread::begin(preempt);
        let mut hs = vec![];
        for i in 0..m_threads {
            let engine = w.engine().clone();
            let rec = w.rec.clone();
            let act = mixed2.get(i).cloned().unwrap_or_else(|| act.clone());
            let (pid, tid, key, act, opts) = (oa.pid.clone(), oa.tid.clone(), oa.key.clone(), act, opts.clone());
            let epoch = w.epoch;
            hs.push(vsim::vthread::spawn(&format!("client{}", i), move || {
                vsim::set_epoch(epoch);
                crate::world::do_action(&engine, &rec, &pid, &tid, &act, &opts, &key, &format!("thread{}", i), false);
            }));
        }
        let (_n, ok) = crate::layer2::run_executor_with_threads(50_000);
        let st = vsim::vthread::end();
        for h in hs {
            let _ = h.join();
        }
        *stats2.lock().unwrap() = (st.points, st.switches, st.forced, st.deadlock, ok);
        w.settle();
        w.capture("after race");
        w.qidx += 1;
    });
    let mut out = CaseOut { scenario: Some(sc.clone()), ..Default::default() };
    if discard_if_broken(&rec, &mut out) {
        return out;
    }
    let st = stats.lock().unwrap().clone();
    ctx.count("layer2.sched_points", st.0);
    ctx.count("layer2.switches", st.1);
    if st.2 > 0 {
        ctx.count("probe.forced_switch", 1);
    }
    if m_threads == 8 {
        ctx.count("probe.eight_threads", 1);
    }
    ctx.count(if action == "complete" { "probe.action_complete" } else { "probe.action_other" }, 1);
    let calls: Vec<&ActionRec> = rec.actions.iter().filter(|a| a.by.starts_with("thread")).collect();
    let mut v = vec![];
    let sig = |what: &str| json!({"what": what, "action": action});
    if let Some(d) = &st.3 {
        v.push(Violation::new("C05", "engine_lock_deadlock", sig("deadlock"), format!("the engine deadlocked on its own locks: {}", d)));
    } else if !st.4 || calls.len() != m_threads {
        out.discarded = Some(format!("race did not settle: {} of {} calls returned; panics {:?}", calls.len(), m_threads, rec.panics));
        return out;
    }
    // overlapping calls: some invoke lies inside another call's interval
    let overlapping = calls.iter().any(|a| calls.iter().any(|b| a.seq0 < b.seq0 && b.seq0 < a.seq1));
    if overlapping {
        ctx.count("probe.overlapping_calls", 1);
    }
    let oks = calls.iter().filter(|a| a.ok).count();
    if v.is_empty() && oks != 1 {
        v.push(Violation::new("C05", "concurrent_actions_not_exactly_one_success", json!({"what": if oks == 0 { "none" } else { "several" }, "action": action}), format!("{} threads issued `{}` on the same open act: {} calls returned Ok ({:?})", m_threads, action, oks, calls.iter().map(|a| if a.ok { "ok".to_string() } else { a.err.chars().take(40).collect::<String>() }).collect::<Vec<_>>())));
    }
    if v.is_empty() {
        if let Some(q) = rec.qpoints.last() {
            if let Some(p) = q.live.iter().find(|p| p.pid == "p1") {
                // successors of the act: tasks whose prev is the act, and instances per node id
                let tid = calls[0].tid.clone();
                let succ: Vec<&TaskImg> = p.tasks.iter().filter(|t| t.prev.as_deref() == Some(tid.as_str())).collect();
                let mut per_nid: std::collections::BTreeMap<&str, usize> = Default::default();
                for t in &p.tasks {
                    *per_nid.entry(t.nid.as_str()).or_default() += 1;
                }
                if succ.len() > 1 || per_nid.values().any(|n| *n > 1) {
                    v.push(Violation::new("C05", "duplicate_successor", sig("successor"), format!("{} threads issued `{}`: the act has {} successor tasks, instances per node: {:?}", m_threads, action, succ.len(), per_nid)));
                }
            }
        }
        let term = rec.msgs.iter().filter(|m| m.via == "message" && m.tid == calls[0].tid && m.state != "created").count();
        if v.is_empty() && term > 1 {
            v.push(Violation::new("C05", "duplicate_terminal_message_under_race", sig("message"), format!("{} threads issued `{}`: the act produced {} terminal messages", m_threads, action, term)));
        }
    }
    out.violations = v;
    out.nontrivial = overlapping;
    out.outcome_hash = outcome_hash(&rec);
    out.sample = basic_sample(&sc, &rec, json!({"threads": m_threads, "action": action, "preempt_permille": preempt, "lock_sched_points": st.0, "baton_switches": st.1, "ok_calls": oks}));
    out
}
