//! C05 — Client actions: admission rules and at-most-once effect.
//! Part (a), layer 1: the action x task-state admission matrix, judged between two quiescent points.
use super::common::*;
use crate::checks::*;
use crate::imgx;
use crate::obs::*;
use crate::scenario::*;
use serde_json::{json, Value};

pub fn def() -> CheckDef {
    CheckDef {
        id: "C05",
        title: "Client actions: admission rules and at-most-once effect",
        case,
        rule: "case = generated model x scripted client (all action kinds, duplicates, missing declared outputs, extra keys) x adversary that, at quiescent points, aims any of the ten actions at any task ever seen (open act, terminal act in each terminal state, step, branch, root, unknown tid, unknown pid, finished process) x seeded schedule; every action issued at a quiescent point is judged against the live dump before it (necessary admission conditions => Err) and, when rejected, the live dump, the rows and the streams before/after must be identical. non-trivial = at least one action was rejected and one accepted and a terminal act was targeted; distinct = distinct (scenario hash, schedule hash)",
        level: "exploration",
        assumptions: &["monotone simulated clock", "actions are judged at quiescent points (layer 1); racing client threads are the layer-2 part of this check", "no storage errors are injected"],
        probes: &["probe.terminal_act_targeted", "probe.non_act_targeted", "probe.unknown_id", "probe.missing_output", "probe.rejected_checked_for_effects", "probe.duplicate_action"],
        quick_cases: 3000,
        no_shrink: &[],
    }
}

const OPTS: LifeOpts = LifeOpts {
    catches: true,
    scripted_actions: &["complete", "submit", "skip", "abort", "error", "back", "cancel", "remove"],
    p_scripted: 400,
    adversary: Some((450, 16, &TEN)),
    dup: true,
    generators: true,
    hooks: false,
    outputs: true,
};

pub fn case(ctx: &mut CaseCtx) -> CaseOut {
    let sc = ctx.scenario(|r| {
        let mut s = gen_lifecycle(r, &OPTS);
        s.client.mode = "sequential".into();
        s.engine.keep_processes = r.below(4) != 0;
        s
    });
    let rec = ctx.run(&sc);
    let mut out = CaseOut { scenario: Some(sc.clone()), ..Default::default() };
    if discard_if_broken(&rec, &mut out) {
        return out;
    }
    let (v, probes) = admission_oracle(&sc, &rec);
    out.violations = v;
    for (k, n) in &probes {
        if *n > 0 {
            ctx.count(k, 1);
        }
    }
    if rec.actions.windows(2).any(|w| w[0].tid == w[1].tid && w[0].action == w[1].action && w[0].pid == w[1].pid) {
        ctx.count("probe.duplicate_action", 1);
    }
    let accepted = rec.actions.iter().any(|a| a.ok);
    let rejected = rec.actions.iter().any(|a| !a.ok);
    out.nontrivial = accepted && rejected && probes.iter().any(|(k, n)| *k == "probe.terminal_act_targeted" && *n > 0);
    out.outcome_hash = outcome_hash(&rec);
    out.sample = basic_sample(&sc, &rec, json!({}));
    out
}

fn strip_times(p: &ProcImg) -> Value {
    // everything a client can observe of a process, without volatile bookkeeping
    json!({
        "state": p.state, "err": p.err, "env": p.env,
        "tasks": p.tasks.iter().map(|t| json!({"tid": t.tid, "state": t.state, "prev": t.prev, "data": t.data, "err": t.err})).collect::<Vec<_>>()
    })
}

pub fn admission_oracle(sc: &Scenario, rec: &RunRecord) -> (Vec<Violation>, Vec<(&'static str, u32)>) {
    let mut out = vec![];
    let mut p_term = 0;
    let mut p_nonact = 0;
    let mut p_unknown = 0;
    let mut p_missing = 0;
    let mut p_effects = 0;
    let client_chan = sc.channels[0].label.clone();
    for (ai, a) in rec.actions.iter().enumerate() {
        if !a.at_quiescence {
            continue;
        }
        // quiescent point right before the action, and the next one after it
        let Some(qb) = rec.qpoints.iter().rev().find(|q| q.seq <= a.seq0) else { continue };
        let qa = rec.qpoints.iter().find(|q| q.seq >= a.seq1);
        // several actions between the same two points (duplicates): only the first is bracketed exactly
        let first_in_bracket = !rec.actions[..ai].iter().any(|b| b.seq0 >= qb.seq);
        let finished = rec.msgs.iter().any(|m| (m.via == "complete" || m.via == "error") && m.chan == client_chan && m.pid == a.pid && m.seq <= a.seq0);
        let proc_b = qb.live.iter().find(|p| p.pid == a.pid);
        let row_b = qb.rows.iter().find(|p| p.pid == a.pid);
        let task_b = proc_b.and_then(|p| imgx::task(p, &a.tid)).or_else(|| row_b.and_then(|p| imgx::task(p, &a.tid)));
        let seven = SEVEN.contains(&a.action.as_str());
        // necessary conditions
        let mut must_reject: Option<(String, String)> = None; // (reason, target class)
        if first_in_bracket {
            if proc_b.is_none() && row_b.is_none() {
                p_unknown += 1;
                must_reject = Some(("no such live process".into(), if finished { "finished_process".into() } else { "unknown_pid".into() }));
            } else if task_b.is_none() {
                p_unknown += 1;
                must_reject = Some(("no such task".into(), "unknown_tid".into()));
            } else if let Some(t) = task_b {
                if a.action == "push" {
                    if t.kind != "step" {
                        p_nonact += 1;
                        must_reject = Some(("push needs a step".into(), format!("{}_task", t.kind)));
                    }
                } else if t.kind != "act" {
                    p_nonact += 1;
                    must_reject = Some(("the task is not an act".into(), format!("{}_task", t.kind)));
                } else {
                    if is_terminal_state(&t.state) {
                        p_term += 1;
                        if seven {
                            must_reject = Some(("the act is already terminal".into(), format!("terminal_act:{}", t.state)));
                        }
                    }
                    if must_reject.is_none() {
                        if let Some(m) = find_act(&sc.models, &t.nid) {
                            let missing: Vec<&String> = m.outputs.iter().filter(|k| a.options.get(k.as_str()).is_none()).collect();
                            if !missing.is_empty() {
                                p_missing += 1;
                                must_reject = Some(("a declared output is missing".into(), "open_act_missing_output".into()));
                            }
                        }
                    }
                }
            }
        }
        if let Some((reason, target)) = &must_reject {
            if a.ok {
                out.push(Violation::new(
                    "C05",
                    "inadmissible_action_accepted",
                    json!({"action": a.action, "target": target}),
                    format!("`{}` on task {} of {} was accepted although {} (issued by {} at seq {})", a.action, a.tid, a.pid, reason, a.by, a.seq0),
                ));
                return (out, vec![]);
            }
        }
        // a rejected action changes nothing
        if !a.ok && seven && first_in_bracket {
            if let Some(qa) = qa {
                let only_one = rec.actions.iter().filter(|b| b.seq0 >= qb.seq && b.seq1 <= qa.seq).count() == 1;
                if only_one {
                    p_effects += 1;
                    let lb: Vec<Value> = qb.live.iter().map(strip_times).collect();
                    let la: Vec<Value> = qa.live.iter().map(strip_times).collect();
                    let rb: Vec<Value> = qb.rows.iter().map(strip_times).collect();
                    let ra: Vec<Value> = qa.rows.iter().map(strip_times).collect();
                    let new_msgs = rec.msgs.iter().filter(|m| m.seq > a.seq0 && m.seq <= qa.seq).count();
                    let new_trans = rec.trans.iter().filter(|t| t.seq > a.seq0 && t.seq <= qa.seq && !t.pure_write).count();
                    let mut what = vec![];
                    if lb != la {
                        what.push("live tasks");
                    }
                    if rb != ra {
                        what.push("stored rows");
                    }
                    if new_msgs > 0 {
                        what.push("messages");
                    }
                    if new_trans > 0 {
                        what.push("state writes");
                    }
                    if !what.is_empty() {
                        out.push(Violation::new(
                            "C05",
                            "rejected_action_had_effect",
                            json!({"action": a.action, "changed": what}),
                            format!("`{}` on task {} of {} returned an error ({}) but changed {:?} (seq {}..{})", a.action, a.tid, a.pid, a.err.chars().take(80).collect::<String>(), what, a.seq0, qa.seq),
                        ));
                        return (out, vec![]);
                    }
                }
            }
        }
    }
    (
        out,
        vec![
            ("probe.terminal_act_targeted", p_term),
            ("probe.non_act_targeted", p_nonact),
            ("probe.unknown_id", p_unknown),
            ("probe.missing_output", p_missing),
            ("probe.rejected_checked_for_effects", p_effects),
        ],
    )
}
