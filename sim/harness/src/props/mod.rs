pub mod c01;

use crate::checks::CheckDef;

pub fn all() -> Vec<CheckDef> {
    vec![c01::def()]
}
