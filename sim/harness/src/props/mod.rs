pub mod c01;
pub mod c02;
pub mod c03;
pub mod c04;
pub mod c05;
pub mod c06;
pub mod c07;
pub mod c08;
pub mod c09;
pub mod c10;
pub mod c11;
pub mod c12;
pub mod c13;
pub mod c15;
pub mod c16;
pub mod c17;
pub mod c18;
pub mod c19;
pub mod common;

use crate::checks::CheckDef;

pub fn all() -> Vec<CheckDef> {
    vec![c01::def(), c02::def(), c03::def(), c04::def(), c05::def(), c05::def_b(), c06::def(), c07::def(), c08::def(), c09::def(), c09::def_b(), c10::def(), c11::def(), c12::def(), c13::def(), c13::def_b(), c15::def(), c16::def(), c17::def(), c18::def(), c18::def_b(), c19::def()]
}
