//! C02 — Task lifecycle: only legal transitions, terminal states are final.
use super::common::*;
use crate::checks::*;
use crate::model::ActKind;
use crate::obs::*;
use crate::scenario::*;
use serde_json::json;
use std::collections::BTreeMap;

pub fn def() -> CheckDef {
    CheckDef {
        id: "C02",
        title: "Task lifecycle: only legal transitions, terminal states are final",
        case,
        rule: "case = generated model (control flow + catches + generators + lifecycle hooks) x scripted client using all action kinds (with duplicates, missing/extra options; a sixth of the cases play a multi-step cancel history on generator-free models: first interrupts completed, one closed by skip/submit/remove, every later one cancels the act completed last, many steps beginning with an act skipped by its own condition) x adversary issuing any of the ten actions at any task ever seen (open, terminal, step, branch, root, unknown) x seeded schedule; the H2 trace of every task state write is monitored. non-trivial = at least one client/adversary action was accepted and one rejected, or a catch revived a task; distinct = distinct (scenario hash, schedule hash)",
        level: "exploration",
        assumptions: &["monotone simulated clock", "state writes are observed through hook H2 (Task::set_state / set_pure_state)", "no storage errors are injected"],
        probes: &["probe.action_on_terminal_task", "probe.catch_revive", "probe.rejected_action", "probe.duplicate_action", "probe.cancel_accepted"],
        quick_cases: 6000,
        no_shrink: &[],
    }
}

const OPTS: LifeOpts = LifeOpts {
    catches: true,
    // weighted towards the multi-step histories (skip / submit / remove an act, then cancel an earlier one)
    scripted_actions: &["cancel_prev", "cancel_prev", "cancel_prev", "skip", "skip", "submit", "remove", "complete", "abort", "error", "back", "cancel"],
    p_scripted: 600,
    adversary: Some((350, 12, &TEN)),
    dup: true,
    generators: true,
    hooks: true,
    outputs: true, drop_outputs: true
};

pub fn case(ctx: &mut CaseCtx) -> CaseOut {
    let sc = ctx.scenario(|r| {
        // (the family below is played on models without generator acts: cancel is never combined with them)
        let family = r.below(6) == 0;
        let mut opts = OPTS;
        if family {
            opts.generators = false;
        }
        let mut sc = gen_lifecycle(r, &opts);
        if family {
            cancel_family(&mut sc, r);
        }
        sc
    });
    let rec = ctx.run(&sc);
    let mut out = CaseOut { scenario: Some(sc.clone()), ..Default::default() };
    if discard_if_broken(&rec, &mut out) {
        return out;
    }
    out.violations = lifecycle_oracle(&sc, &rec);
    let accepted = rec.actions.iter().any(|a| a.ok);
    let rejected = rec.actions.iter().any(|a| !a.ok);
    let revive = rec.trans.iter().any(|t| t.old == "error" && t.new == "running");
    if rejected {
        ctx.count("probe.rejected_action", 1);
    }
    if rec.actions.iter().any(|a| a.ok && a.action == "cancel") {
        ctx.count("probe.cancel_accepted", 1);
    }
    if revive {
        ctx.count("probe.catch_revive", 1);
    }
    if rec.actions.windows(2).any(|w| w[0].tid == w[1].tid && w[0].action == w[1].action) {
        ctx.count("probe.duplicate_action", 1);
    }
    // an action aimed at a task that was already terminal
    let mut state: BTreeMap<(String, String), String> = BTreeMap::new();
    let mut ai = 0;
    let mut on_terminal = false;
    for t in &rec.trans {
        while ai < rec.actions.len() && rec.actions[ai].seq0 < t.seq {
            let a = &rec.actions[ai];
            if state.get(&(a.pid.clone(), a.tid.clone())).map(|s| is_terminal_state(s)).unwrap_or(false) {
                on_terminal = true;
            }
            ai += 1;
        }
        state.insert((t.pid.clone(), t.tid.clone()), t.new.clone());
    }
    if on_terminal {
        ctx.count("probe.action_on_terminal_task", 1);
    }
    out.nontrivial = (accepted && rejected) || revive;
    out.outcome_hash = outcome_hash(&rec);
    out.sample = basic_sample(&sc, &rec, json!({}));
    out
}

pub fn lifecycle_oracle(sc: &Scenario, rec: &RunRecord) -> Vec<Violation> {
    let mut out = vec![];
    let mut cur: BTreeMap<(String, String), String> = BTreeMap::new();
    let mut revived: BTreeMap<(String, String), u32> = BTreeMap::new();
    for t in &rec.trans {
        let key = (t.pid.clone(), t.tid.clone());
        if t.pure_write {
            // a task object re-created from its stored row: not a transition
            cur.insert(key, t.new.clone());
            continue;
        }
        let old = cur.get(&key).cloned().unwrap_or_else(|| "none".to_string());
        // the trace's own `old` must agree with what the monitor saw last (same object)
        let old = if old != t.old { t.old.clone() } else { old };
        let new = t.new.clone();
        cur.insert(key.clone(), new.clone());
        if old == new {
            continue;
        }
        let act = action_at(rec, t.seq);
        let action = act.map(|a| a.action.clone()).unwrap_or_default();
        // is the rewritten task the one the client aimed at, or another one (ancestor, sibling)?
        let victim = match act {
            Some(a) if a.tid == t.tid => "target",
            Some(_) => "other_task",
            None => "no_action",
        };
        let sig = |k: &str| json!({"victim": victim, "action": action, "rule": k});
        let detail = |what: &str| format!("{}: task {} ({} {}) of {} went {} -> {} at seq {}{}", what, t.tid, t.kind, t.nid, t.pid, old, new, t.seq, if action.is_empty() { String::new() } else { format!(" during client action `{}`", action) });
        if old == "error" && new == "running" {
            let n = revived.entry(key.clone()).or_default();
            *n += 1;
            let has_catch = match t.kind.as_str() {
                "act" => find_act(&sc.models, &t.nid).map(|a| !a.catches.is_empty()),
                "step" => find_step(&sc.models, &t.nid).map(|s| !s.catches.is_empty()),
                _ => Some(false),
            };
            if *n > 1 {
                out.push(Violation::new("C02", "revived_twice", sig("error->running at most once"), detail("second revival")));
                return out;
            }
            if has_catch == Some(false) {
                out.push(Violation::new("C02", "revived_without_catch", sig("error->running needs a catch"), detail("revival without a catch on the task")));
                return out;
            }
            continue;
        }
        if is_terminal_state(&old) {
            out.push(Violation::new("C02", "terminal_state_rewritten", sig("terminal is final"), detail("terminal state rewritten")));
            return out;
        }
        if stage(&new) < stage(&old) {
            out.push(Violation::new("C02", "stage_went_back", sig("stages only move forward"), detail("stage went back")));
            return out;
        }
        if stage(&old) == 1 && stage(&new) == 1 && !(old == "ready" && (new == "pending" || new == "interrupted")) {
            out.push(Violation::new("C02", "illegal_created_refinement", sig("ready -> pending|interrupted only"), detail("illegal move inside the created stage")));
            return out;
        }
    }
    out
}
