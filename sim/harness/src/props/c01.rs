//! C01 — Progress: a quiescent, unfinished process is always waiting on a client.
use crate::checks::*;
use crate::gen::*;
use crate::imgx;
use crate::obs::*;
use crate::scenario::*;
use serde_json::json;
use std::collections::BTreeSet;

pub fn def() -> CheckDef {
    CheckDef {
        id: "C01",
        title: "Progress: a quiescent, unfinished process is always waiting on a client",
        case: case,
        rule: "case = generated control-flow model (steps, if/else/needs branches in shuffled declaration order, conditional steps/acts, irq/msg acts, depth<=3; a fifth with lifecycle-hook acts on workflow and steps) x one valuation of (a,b) x seeded scheduler policy; non-trivial = some branch task was `pending` at some point of the run, or the run had >= 2 simultaneously ready tasks at >= 5 scheduling points and an interrupt was answered; distinct = distinct (model+valuation+client hash, schedule hash)",
        level: "exploration",
        assumptions: &["monotone simulated clock", "clients are in-process callers", "no storage errors are injected"],
        probes: &["probe.branch_pending", "probe.else_after_sibling_decided", "probe.needs_branch", "probe.lifecycle_hooks"],
        quick_cases: 8000,
        no_shrink: &[],
    }
}

fn gen_scenario(rng: &mut vsim::rng::Rng) -> Scenario {
    let mut cfg = GenCfg::control();
    // swarm: vary the mix per case
    cfg.p_branches = *rng.pick(&[300, 500, 800]);
    cfg.p_else = *rng.pick(&[300, 600, 900]);
    cfg.p_needs = *rng.pick(&[0, 200, 500]);
    cfg.p_step_if = *rng.pick(&[0, 150, 300]);
    cfg.p_act_if = *rng.pick(&[0, 150, 300]);
    cfg.p_empty_branch = *rng.pick(&[0, 150, 400]);
    cfg.max_steps = 1 + rng.below(4) as u32;
    // a fifth of the programs with lifecycle-hook acts on workflow and steps: an act started by a hook can be the
    // last thing its step waits for (the repaired finding C01-hook-act-strands-*)
    if rng.below(5) == 0 {
        cfg.p_hooks = *rng.pick(&[200, 500]);
    }
    let mut g = Gen::new(rng, cfg);
    let m = g.workflow("m");
    let mut sc = Scenario::default();
    sc.client.reactions = completer_for(std::slice::from_ref(&m));
    sc.models.push(m);
    sc.starts.push(Start { model: "m".into(), vars: valuation(rng, 3), pid: Some("p1".into()), at_q: 0 });
    sc.client.mode = rng.pick(&["sequential", "sequential", "spawned", "inline"]).to_string();
    sc.client.order = rng.pick(&["fifo", "random"]).to_string();
    sc.engine.keep_processes = rng.below(2) == 0;
    sc.knobs = random_knobs(rng);
    sc.deploy_yaml = rng.below(2) == 0;
    sc.capture = true;
    sc
}

pub fn case(ctx: &mut CaseCtx) -> CaseOut {
    let sc = ctx.scenario(gen_scenario);
    let rec = ctx.run(&sc);
    let mut out = CaseOut { scenario: Some(sc.clone()), ..Default::default() };
    if let Some(p) = rec.panics.iter().find(|p| p.starts_with("deploy") || p.starts_with("harness")) {
        out.discarded = Some(p.clone());
        return out;
    }
    out.violations = progress_oracle(&sc, &rec, true);
    // probes
    let pending = rec.trans.iter().any(|t| t.kind == "branch" && t.new == "pending");
    if pending {
        ctx.count("probe.branch_pending", 1);
    }
    {
        let mut hooks = !sc.models[0].setup.is_empty();
        sc.models[0].visit_steps(&mut |s| hooks |= !s.setup.is_empty());
        if hooks {
            ctx.count("probe.lifecycle_hooks", 1);
        }
    }
    let roles = imgx::branch_roles(&sc.models);
    if roles.values().any(|r| r == "needs") {
        ctx.count("probe.needs_branch", 1);
    }
    // else branch initialised after a sibling was already decided
    for t in rec.trans.iter().filter(|t| t.kind == "branch" && t.new == "pending" && roles.get(&t.nid).map(|r| r == "else").unwrap_or(false)) {
        let decided_before = rec.trans.iter().any(|x| x.seq < t.seq && x.kind == "branch" && x.nid != t.nid && x.pid == t.pid && is_terminal_state(&x.new));
        if decided_before {
            ctx.count("probe.else_after_sibling_decided", 1);
            break;
        }
    }
    let answered = rec.actions.iter().any(|a| a.ok);
    let busy = rec.counters.get("sim.sched_nontrivial").copied().unwrap_or(0) >= 5;
    out.nontrivial = pending || (busy && answered);
    let finished = rec.msgs.iter().filter(|m| m.via == "complete" || m.via == "error").count();
    out.outcome_hash = vsim::hash_str(&format!("{}:{}", finished, rec.trans.iter().filter(|t| is_terminal_state(&t.new)).count()));
    out.sample = sample_of(&sc, json!({"finished_events": finished, "qpoints": rec.qpoints.len(), "actions": rec.actions.len(), "steps": rec.steps, "decisions": rec.decisions.len()}));
    out
}

/// the C01 invariant at every captured quiescent point, and bounded liveness at the last one
pub fn progress_oracle(sc: &Scenario, rec: &RunRecord, expect_all_answered: bool) -> Vec<Violation> {
    let mut out = vec![];
    let roles = imgx::branch_roles(&sc.models);
    let client_chan = sc.channels[0].label.clone();
    if rec.step_cap_hit {
        let completer = sc.adversary.is_none() && sc.faults.is_empty();
        if completer {
            out.push(Violation::new("C01", "livelock_step_cap", json!({}), format!("executor step cap {} hit without reaching quiescence", sc.step_cap)));
        }
        return out;
    }
    let last = rec.qpoints.len().saturating_sub(1);
    for (qi, q) in rec.qpoints.iter().enumerate() {
        for (pid, _mid) in &rec.started {
            // started before this point?
            let finished = rec.msgs.iter().any(|m| (m.via == "complete" || m.via == "error") && m.chan == client_chan && &m.pid == pid && m.seq <= q.seq);
            if finished {
                continue;
            }
            let Some(p) = q.live.iter().find(|p| &p.pid == pid) else {
                // not cached: evicted (judged by the properties about eviction) or not yet launched
                continue;
            };
            if p.tasks.is_empty() {
                continue;
            }
            let delivered: BTreeSet<&str> = rec
                .msgs
                .iter()
                .filter(|m| m.via == "message" && m.chan == client_chan && &m.pid == pid && m.state == "created" && m.seq <= q.seq)
                .map(|m| m.tid.as_str())
                .collect();
            let answered: BTreeSet<&str> = rec.actions.iter().filter(|a| &a.pid == pid && a.ok && a.seq1 <= q.seq).map(|a| a.tid.as_str()).collect();
            let mut waiting_on_client = false;
            let mut waiting_unanswered = false;
            for t in &p.tasks {
                if t.state == "interrupted" && delivered.contains(t.tid.as_str()) {
                    waiting_on_client = true;
                    if !answered.contains(t.tid.as_str()) {
                        waiting_unanswered = true;
                    }
                }
            }
            let timeouts = p.tasks.iter().filter(|t| !is_terminal_state(&t.state)).map(imgx::unfired_timeouts).sum::<usize>() > 0;
            // running sub-process: another live, unfinished process names this one as its parent
            let sub = q.live.iter().any(|c| {
                c.tasks.iter().any(|t| t.tid == "$" && t.data.get("$parent_pid").and_then(|v| v.as_str()) == Some(pid.as_str()))
                    && !rec.msgs.iter().any(|m| (m.via == "complete" || m.via == "error") && m.pid == c.pid && m.seq <= q.seq)
            });
            let ok = waiting_on_client || timeouts || sub;
            let final_point = qi == last;
            let stuck_final = final_point && expect_all_answered && !waiting_unanswered && !timeouts && !sub && sc.client.default.action == "complete" && sc.client.reactions.values().all(|v| v.iter().all(|r| r.action == "complete"));
            if !ok || stuck_final {
                // name the stranded tasks: open tasks that are not interrupted acts
                let mut stranded: Vec<(String, String, String)> = p
                    .tasks
                    .iter()
                    .filter(|t| !is_terminal_state(&t.state) && t.state != "interrupted")
                    .map(|t| {
                        let role = if t.kind == "branch" { roles.get(&t.nid).cloned().unwrap_or_default() } else { t.uses.clone() };
                        (t.kind.clone(), t.state.clone(), role)
                    })
                    .collect();
                stranded.sort();
                stranded.dedup();
                // the signature names the deepest waiting thing: a pending/ready/none task if any
                let culprit = stranded
                    .iter()
                    .find(|s| s.1 == "pending")
                    .or_else(|| stranded.iter().find(|s| s.1 == "ready" || s.1 == "none"))
                    .or_else(|| stranded.iter().rev().find(|s| s.0 == "act"))
                    .or_else(|| stranded.first())
                    .cloned()
                    .unwrap_or_default();
                let kind = if !ok { "stranded_process" } else { "unfinished_after_all_answered" };
                let detail = format!(
                    "quiescent point {} (seq {}): process {} is {} with no open interrupt/timeout/sub-process; open tasks: {:?}",
                    q.idx,
                    q.seq,
                    pid,
                    p.state,
                    p.tasks.iter().filter(|t| !is_terminal_state(&t.state)).map(|t| format!("{} {} {}", t.kind, t.nid, t.state)).collect::<Vec<_>>()
                );
                // lifecycle hooks in the model are part of the signature (the recorded hook finding must
                // not hide a stranded task in a model without hooks)
                let mut hooks = false;
                for m in &sc.models {
                    hooks |= !m.setup.is_empty();
                    m.visit_steps(&mut |s| hooks |= !s.setup.is_empty());
                    m.visit_acts(&mut |a| hooks |= !a.setup.is_empty());
                }
                out.push(Violation::new("C01", kind, json!({"task": culprit.0, "state": culprit.1, "role": culprit.2, "hooks_in_model": hooks}), detail));
                return out;
            }
        }
    }
    out
}
