//! C16 — Generated acts and lifecycle hooks run exactly as many times as specified.
use super::common::*;
use crate::checks::*;
use crate::gen::*;
use crate::imgx;
use crate::model::*;
use crate::obs::*;
use crate::scenario::*;
use serde_json::{json, Value};
use std::collections::BTreeMap;

pub fn def() -> CheckDef {
    CheckDef {
        id: "C16",
        title: "Generated acts and lifecycle hooks run exactly as many times as specified",
        case,
        rule: "case = model whose steps contain parallel / sequence / block acts over lists of length 0..5 (inner act lists of 1..3 irq/msg acts, sometimes a nested block) and setup acts bound to created / completed / before_update / updated / step on the workflow, steps and acts, plus a `push` of an act into an open step, a fifth of the hook-free models inside a loop (backward `next` jump, 2..4 visits: every visit generates its own groups), under a completer client with seeded answer order and schedule. oracles count over the message stream, the H2 trace and the final live dump: groups per list element with their own $index/$value, all-at-once (parallel) versus one-after-another in list order (sequence), the generator completes after everything it generated, hook firings = matching lifecycle events, one push = one new act. non-trivial = a generator ran over a list of length >= 2 or at least three hook acts fired; distinct = distinct (scenario hash, schedule hash)",
        level: "exploration",
        assumptions: &["monotone simulated clock", "for `on: step` the README's reading (fires when a step completes) is taken", "a task that is skipped by its own `if` registers no hooks and counts as neither created nor updated", "no storage errors are injected"],
        probes: &["probe.parallel", "probe.sequence", "probe.block", "probe.empty_list", "probe.nested_block", "probe.hooks_fired", "probe.push", "probe.list_len_ge_3", "probe.generator_visited_again"],
        quick_cases: 3000,
        no_shrink: &[],
    }
}

fn leaf(rng: &mut vsim::rng::Rng, n: &mut u32, irq_bias: u64) -> MAct {
    *n += 1;
    if rng.below(10) < irq_bias {
        MAct { id: format!("g{}", n), key: format!("gk{}", n), kind: ActKind::Irq, ..Default::default() }
    } else {
        MAct { id: format!("g{}", n), key: format!("gm{}", n), kind: ActKind::Msg, ..Default::default() }
    }
}

fn hook_acts(rng: &mut vsim::rng::Rng, owner: &str, kinds: &[&str], p: u64) -> Vec<MAct> {
    let mut out = vec![];
    for k in kinds {
        if rng.below(10) < p {
            out.push(MAct { id: String::new(), key: format!("hook:{}:{}", owner, k), kind: ActKind::Msg, on: Some(k.to_string()), ..Default::default() });
        }
    }
    out
}

fn gen_scenario(rng: &mut vsim::rng::Rng) -> Scenario {
    let mut n = 0u32;
    let hooks_p = *rng.pick(&[0u64, 3, 6]);
    let nsteps = 1 + rng.below(3);
    let mut steps = vec![];
    for si in 0..nsteps {
        let sid = format!("s{}", si + 1);
        let mut acts = vec![];
        let nacts = 1 + rng.below(3);
        for _ in 0..nacts {
            let kind = rng.below(6);
            if kind <= 2 {
                let len = *rng.pick(&[0u64, 1, 2, 2, 3, 3, 4, 5]);
                let list: Vec<Value> = (0..len).map(|i| json!(format!("v{}", i * 7 + 1))).collect();
                let ninner = 1 + rng.below(3);
                let mut inner: Vec<MAct> = vec![];
                for j in 0..ninner {
                    if j > 0 && rng.below(5) == 0 {
                        n += 1;
                        let b = MAct { id: format!("g{}", n), kind: ActKind::Block { sequence: rng.below(2) == 0, acts: vec![leaf(rng, &mut n, 6), leaf(rng, &mut n, 6)] }, ..Default::default() };
                        inner.push(b);
                    } else {
                        inner.push(leaf(rng, &mut n, if j == 0 { 8 } else { 6 }));
                    }
                }
                n += 1;
                let id = format!("gen{}", n);
                acts.push(match kind {
                    0 => MAct { id, kind: ActKind::Parallel { list, acts: inner }, ..Default::default() },
                    1 => MAct { id, kind: ActKind::Sequence { list, acts: inner }, ..Default::default() },
                    _ => MAct { id, kind: ActKind::Block { sequence: rng.below(2) == 0, acts: inner }, ..Default::default() },
                });
            } else {
                let mut a = leaf(rng, &mut n, 7);
                a.setup = hook_acts(rng, &a.id.clone(), &["created", "completed"], hooks_p / 2);
                acts.push(a);
            }
        }
        let setup = hook_acts(rng, &sid, &["created", "completed", "before_update", "updated", "step"], hooks_p);
        steps.push(MStep { id: sid, acts, setup, ..Default::default() });
    }
    let wsetup = hook_acts(rng, "wf", &["created", "completed", "before_update", "updated", "step"], hooks_p);
    let mut m = MWorkflow { id: "m".into(), steps, setup: wsetup, ..Default::default() };
    let mut sc = Scenario::default();
    let mut vars = serde_json::Map::new();
    // sometimes the steps sit in a loop (backward `next` jump): every visit generates its own groups
    if hooks_p == 0 && rng.below(5) == 0 {
        add_loop(&mut m, rng);
        vars.insert("c".into(), json!(0));
    }
    sc.models.push(m);
    sc.starts.push(Start { model: "m".into(), vars, pid: Some("p1".into()), at_q: 0 });
    sc.client.mode = rng.pick(&["sequential", "sequential", "sequential", "spawned", "inline"]).to_string();
    sc.client.order = rng.pick(&["fifo", "random", "random"]).to_string();
    sc.engine.keep_processes = true;
    sc.knobs = random_knobs(rng);
    sc.capture = true;
    sc.max_ops = 300;
    sc
}

fn index_of(m: &MsgRec) -> Option<(u64, Value)> {
    let o = m.inputs.get("options")?;
    Some((o.get("$index")?.as_u64()?, o.get("$value")?.clone()))
}

fn leaves(acts: &[MAct]) -> Vec<&MAct> {
    let mut out = vec![];
    for a in acts {
        match &a.kind {
            ActKind::Block { acts, .. } => out.extend(leaves(acts)),
            _ => out.push(a),
        }
    }
    out
}

pub fn case(ctx: &mut CaseCtx) -> CaseOut {
    let sc = ctx.scenario(gen_scenario);
    // a push into an open step happens at a seeded quiescent point (driver body)
    let push_at = ctx.rng.below(6) as usize;
    let do_push = ctx.rng.below(3) == 0;
    let rec = ctx.run_with(&sc, move |w| {
        if let Err(e) = w.deploy_all() {
            w.rec.lock().unwrap().rec.panics.push(format!("deploy: {e}"));
            return;
        }
        if !do_push {
            w.drive();
            return;
        }
        // drive manually: like World::drive for a sequential completer, with one push
        let mut pushed = false;
        let starts = w.sc.starts.clone();
        for s in &starts {
            w.start(s);
        }
        let mut q = 0usize;
        loop {
            if w.settle() == vsim::Outcome::StepCap {
                break;
            }
            w.capture("");
            w.qidx += 1;
            q += 1;
            if q > 300 {
                break;
            }
            if !pushed && q > push_at {
                // an open (running) step
                let live = w.live();
                let target = live.iter().flat_map(|p| p.tasks.iter().map(move |t| (p.pid.clone(), t.clone()))).find(|(_, t)| t.kind == "step" && t.state == "running");
                if let Some((pid, t)) = target {
                    pushed = true;
                    let mut o = serde_json::Map::new();
                    o.insert("uses".into(), json!("acts.core.irq"));
                    o.insert("key".into(), json!("pushed_key"));
                    o.insert("id".into(), json!("pushed_act"));
                    let engine = w.engine().clone();
                    crate::world::do_action(&engine, &w.rec, &pid, &t.tid, "push", &o, "", "client", true);
                    continue;
                }
            }
            let next = {
                let n = w.rec.lock().unwrap().open.len();
                if n == 0 {
                    None
                } else {
                    let i = if w.sc.client.order == "random" { vsim::choose(vsim::site::CLIENT, n as u32) as usize } else { 0 };
                    Some(w.rec.lock().unwrap().open.remove(i))
                }
            };
            match next {
                Some(oa) => {
                    let engine = w.engine().clone();
                    let client = w.sc.client.clone();
                    crate::world::react(&engine, &w.rec, &client, &oa, true);
                }
                None => break,
            }
        }
    });
    let mut out = CaseOut { scenario: Some(sc.clone()), ..Default::default() };
    if discard_if_broken(&rec, &mut out) || sc.models.is_empty() {
        return out;
    }
    let m = &sc.models[0];
    let mut v: Vec<Violation> = vec![];
    let finished = rec.msgs.iter().any(|x| x.via == "complete" && x.pid == "p1" && x.state == "completed");
    let Some(qlast) = rec.qpoints.last() else { return out };
    let Some(live) = qlast.live.iter().find(|p| p.pid == "p1") else { return out };
    // final state and first/last sequence numbers per task
    let mut created_seq: BTreeMap<String, u64> = BTreeMap::new();
    let mut term_seq: BTreeMap<String, u64> = BTreeMap::new();
    let mut started: BTreeMap<String, bool> = BTreeMap::new();
    for t in rec.trans.iter().filter(|t| t.pid == "p1") {
        if t.old == "none" {
            created_seq.entry(t.tid.clone()).or_insert(t.seq);
        }
        if t.new == "running" || t.new == "interrupted" {
            started.insert(t.tid.clone(), true);
        }
        if is_terminal_state(&t.new) && t.old != t.new {
            term_seq.insert(t.tid.clone(), t.seq);
        }
    }
    let msgs: Vec<&MsgRec> = rec.msgs.iter().filter(|x| x.via == "message" && x.pid == "p1").collect();
    let mut big_list = false;
    // ---- generators
    let mut gens: Vec<MAct> = vec![];
    m.visit_acts(&mut |a| {
        if matches!(a.kind, ActKind::Parallel { .. } | ActKind::Sequence { .. } | ActKind::Block { .. }) {
            gens.push(a.clone());
        }
    });
    // only top-level generators (those declared directly in a step)
    let top: Vec<MAct> = m.steps.iter().flat_map(|s| s.acts.iter()).filter(|a| matches!(a.kind, ActKind::Parallel { .. } | ActKind::Sequence { .. } | ActKind::Block { .. })).cloned().collect();
    // every instance of every top-level generator (a step inside a loop is visited several times)
    let instances: Vec<(&MAct, &TaskImg)> = top.iter().flat_map(|g| live.tasks.iter().filter(move |t| t.nid == g.id).map(move |t| (g, t))).collect();
    if instances.len() > top.len() {
        ctx.count("probe.generator_visited_again", 1);
    }
    for (g, gt) in instances {
        if !is_terminal_state(&gt.state) && finished {
            let mut hooks = !m.setup.is_empty();
            m.visit_steps(&mut |s| hooks |= !s.setup.is_empty());
            m.visit_acts(&mut |a| hooks |= !a.setup.is_empty());
            v.push(Violation::new("C16", "generator_open_after_process_end", json!({"hooks_in_model": hooks, "pushed": rec.actions.iter().any(|a| a.action == "push" && a.ok)}), format!("generator act {} ({}) is {} although the process completed", g.id, gt.uses, gt.state)));
            break;
        }
        if gt.state != "completed" {
            continue;
        }
        let (list, inner, mode): (Option<&Vec<Value>>, &Vec<MAct>, &str) = match &g.kind {
            ActKind::Parallel { list, acts } => (Some(list), acts, "parallel"),
            ActKind::Sequence { list, acts } => (Some(list), acts, "sequence"),
            ActKind::Block { acts, sequence } => (None, acts, if *sequence { "block_sequence" } else { "block_parallel" }),
            _ => unreachable!(),
        };
        ctx.count(&format!("probe.{}", if mode.starts_with("block") { "block" } else { mode }), 1);
        if inner.iter().any(|a| matches!(a.kind, ActKind::Block { .. })) {
            ctx.count("probe.nested_block", 1);
        }
        let n = list.map(|l| l.len()).unwrap_or(1);
        if list.is_some() && n == 0 {
            ctx.count("probe.empty_list", 1);
        }
        if n >= 2 {
            big_list = true;
        }
        if n >= 3 {
            ctx.count("probe.list_len_ge_3", 1);
        }
        // lifecycle-hook acts are dispatched beneath the task that triggered them: not generated acts
        let beneath: Vec<&TaskImg> = imgx::beneath(live, gt).into_iter().filter(|t| !imgx::under_hook_task(live, t)).collect();
        let lf = leaves(inner);
        // every generated act is terminal before the generator completes
        let gterm = term_seq.get(&gt.tid).copied().unwrap_or(u64::MAX);
        for d in &beneath {
            let dt = term_seq.get(&d.tid).copied();
            if !is_terminal_state(&d.state) || dt.map(|x| x > gterm).unwrap_or(true) {
                v.push(Violation::new("C16", "generator_completed_before_generated_acts", json!({"mode": mode}), format!("{} act {} completed at seq {} but generated {} {} is {} (terminal at {:?})", mode, g.id, gterm, d.kind, d.nid, d.state, dt)));
                break;
            }
        }
        if !v.is_empty() {
            break;
        }
        // instance counts and index/value per leaf act
        for l in &lf {
            let inst: Vec<&TaskImg> = beneath.iter().filter(|t| t.nid == l.id).cloned().collect();
            if inst.len() != n {
                v.push(Violation::new("C16", "wrong_number_of_generated_acts", json!({"mode": mode, "want": n.min(9), "got": inst.len().min(9)}), format!("{} act {} over a list of {} elements: inner act {} has {} instances", mode, g.id, n, l.id, inst.len())));
                break;
            }
            if let Some(list) = list {
                // every instance reports its own index and value (taken from its messages)
                let mut seen: Vec<u64> = vec![];
                for t in &inst {
                    let mm = msgs.iter().find(|x| x.tid == t.tid);
                    if let Some(mm) = mm {
                        match index_of(mm) {
                            Some((i, val)) => {
                                if (i as usize) >= list.len() || list[i as usize] != val {
                                    v.push(Violation::new("C16", "wrong_index_or_value", json!({"mode": mode}), format!("{} act {}: an instance of {} reports $index={} $value={} but the list is {:?}", mode, g.id, l.id, i, val, list)));
                                }
                                seen.push(i);
                            }
                            None => {
                                v.push(Violation::new("C16", "missing_index_or_value", json!({"mode": mode}), format!("{} act {}: a message of generated act {} carries no $index/$value: {}", mode, g.id, l.id, mm.inputs)));
                            }
                        }
                    }
                    if !v.is_empty() {
                        break;
                    }
                }
                seen.sort();
                let all: Vec<u64> = (0..n as u64).collect();
                if v.is_empty() && seen.len() == n && seen != all {
                    v.push(Violation::new("C16", "groups_do_not_cover_the_list", json!({"mode": mode}), format!("{} act {}: instances of {} report indexes {:?} for a list of {} elements", mode, g.id, l.id, seen, n)));
                }
            }
            if !v.is_empty() {
                break;
            }
        }
        if !v.is_empty() {
            break;
        }
        // all at once / one after another
        if let Some(_list) = list {
            let first = &lf[0];
            let last = lf[lf.len() - 1];
            let idx_of_task = |tid: &str| msgs.iter().find(|x| x.tid == tid).and_then(|x| index_of(x)).map(|x| x.0);
            let mut firsts: Vec<(u64, u64, Option<u64>)> = beneath.iter().filter(|t| t.nid == first.id).filter_map(|t| idx_of_task(&t.tid).map(|i| (i, created_seq.get(&t.tid).copied().unwrap_or(0), term_seq.get(&t.tid).copied()))).collect();
            firsts.sort();
            let lasts: BTreeMap<u64, u64> = beneath.iter().filter(|t| t.nid == last.id).filter_map(|t| idx_of_task(&t.tid).and_then(|i| term_seq.get(&t.tid).map(|s| (i, *s)))).collect();
            if mode == "sequence" && firsts.len() == n {
                for w in firsts.windows(2) {
                    let prev_done = lasts.get(&w[0].0).copied();
                    if let Some(pd) = prev_done {
                        if w[1].1 < pd {
                            v.push(Violation::new("C16", "sequence_groups_overlap", json!({}), format!("sequence act {}: group {} was opened at seq {} before group {} was finished (seq {})", g.id, w[1].0, w[1].1, w[0].0, pd)));
                            break;
                        }
                    }
                }
            }
            // judged for a client that only acts at quiescent points: an inline / racing client may
            // legitimately answer one group before the queued task that opens the next group has run
            if mode == "parallel" && firsts.len() == n && n >= 2 && matches!(first.kind, ActKind::Irq) && sc.client.mode == "sequential" {
                // every group is opened before any group's first act is answered
                let first_answer = firsts.iter().filter_map(|f| f.2).min().unwrap_or(u64::MAX);
                let last_open = firsts.iter().map(|f| f.1).max().unwrap_or(0);
                if last_open > first_answer {
                    v.push(Violation::new("C16", "parallel_groups_not_all_at_once", json!({}), format!("parallel act {}: a group was opened at seq {} after another group's first act was already closed at seq {}", g.id, last_open, first_answer)));
                }
            }
        }
        if !v.is_empty() {
            break;
        }
    }
    // ---- hooks
    let mut fired = 0u64;
    if v.is_empty() && finished {
        let hook_count = |key: &str| msgs.iter().filter(|x| x.key == key).count();
        let is_hook = |t: &TaskImg| imgx::under_hook_task(live, t);
        let acts_under = |owner: Option<&TaskImg>| -> Vec<&TaskImg> {
            live.tasks
                .iter()
                .filter(|t| t.kind == "act" && !is_hook(t))
                .filter(|t| match owner {
                    None => true,
                    Some(o) => {
                        // nearest step ancestor is the owner
                        imgx::ancestors(live, t).into_iter().find(|a| a.kind == "step").map(|a| a.tid == o.tid).unwrap_or(false)
                    }
                })
                .collect()
        };
        let mut check = |owner_label: &str, owner: Option<&TaskImg>, hooks: &[MAct], kind: &str, v: &mut Vec<Violation>| {
            for h in hooks {
                let Some(on) = &h.on else { continue };
                let got = hook_count(&h.key);
                fired += got as u64;
                let owner_task: Option<&TaskImg> = match kind {
                    "workflow" => live.tasks.iter().find(|t| t.tid == "$"),
                    _ => owner,
                };
                let Some(ot) = owner_task else { continue };
                let owner_started = started.get(&ot.tid).copied().unwrap_or(false);
                let want: usize = match (kind, on.as_str()) {
                    (_, "created") => owner_started as usize,
                    (_, "completed") => (owner_started && is_terminal_state(&ot.state)) as usize,
                    ("workflow", "before_update") => acts_under(None).iter().filter(|t| started.get(&t.tid).copied().unwrap_or(false)).count(),
                    ("workflow", "updated") => acts_under(None).iter().filter(|t| started.get(&t.tid).copied().unwrap_or(false) && is_terminal_state(&t.state)).count(),
                    ("workflow", "step") => live.tasks.iter().filter(|t| t.kind == "step" && !is_hook(t) && started.get(&t.tid).copied().unwrap_or(false) && is_terminal_state(&t.state)).count(),
                    ("step", "before_update") => acts_under(owner).iter().filter(|t| started.get(&t.tid).copied().unwrap_or(false)).count(),
                    ("step", "updated") => acts_under(owner).iter().filter(|t| started.get(&t.tid).copied().unwrap_or(false) && is_terminal_state(&t.state)).count(),
                    ("step", "step") => (owner_started && is_terminal_state(&ot.state)) as usize,
                    _ => continue,
                };
                if got != want {
                    v.push(Violation::new(
                        "C16",
                        "hook_fired_wrong_number_of_times",
                        json!({"owner": kind, "on": on, "more": got > want}),
                        format!("hook act `{}` ({} {} on: {}) fired {} times, the trace has {} matching lifecycle events", h.key, kind, owner_label, on, got, want),
                    ));
                    return;
                }
            }
        };
        check("m", None, &m.setup, "workflow", &mut v);
        for s in &m.steps {
            if !v.is_empty() {
                break;
            }
            let st = live.tasks.iter().find(|t| t.nid == s.id);
            check(&s.id, st, &s.setup, "step", &mut v);
            for a in &s.acts {
                if !v.is_empty() {
                    break;
                }
                let at = live.tasks.iter().find(|t| t.nid == a.id);
                check(&a.id, at, &a.setup, "act", &mut v);
            }
        }
    }
    if fired >= 3 {
        ctx.count("probe.hooks_fired", 1);
    }
    // ---- push
    if v.is_empty() {
        if let Some(a) = rec.actions.iter().find(|a| a.action == "push") {
            ctx.count("probe.push", 1);
            let n = live.tasks.iter().filter(|t| t.nid == "pushed_act").count();
            if a.ok && n != 1 {
                v.push(Violation::new("C16", "push_did_not_add_one_act", json!({"got": n}), format!("`push` into step task {} was accepted but {} tasks of the pushed act exist", a.tid, n)));
            }
            if !a.ok {
                v.push(Violation::new("C16", "push_into_open_step_rejected", json!({}), format!("`push` into the running step task {} was rejected: {}", a.tid, a.err)));
            }
        }
    }
    let _ = (gens, &created_seq);
    out.violations = v;
    out.nontrivial = big_list || fired >= 3;
    out.outcome_hash = outcome_hash(&rec);
    out.sample = basic_sample(&sc, &rec, json!({"hooks_fired": fired, "finished": finished}));
    out
}
