//! C13 — Processes are isolated; outcome is independent of load, cache size and threads.
use super::common::*;
use crate::checks::*;
use crate::gen::*;
use crate::model::*;
use crate::obs::*;
use crate::scenario::*;
use serde_json::{json, Map, Value};
use std::collections::{BTreeMap, BTreeSet};

pub fn def() -> CheckDef {
    CheckDef {
        id: "C13",
        title: "Processes are isolated; outcome is independent of load, cache size and threads",
        case,
        rule: "case = 2..12 (thorough: up to 64) concurrently started processes over 1..3 generated models with overlapping variable names, scripts writing the process env along the flow and a last step reading it (80% of the models), nodes without an id (a third of the cases), each with its own start valuation x cache capacity in {1, 2, n/2, n, 1024} (capacity below the number of processes evicts processes that are in use) x evictions of seeded processes at seeded quiescent points (dropped and reloaded from the store) x store backend x a client that answers any open interrupt of any process in a seeded order x seeded schedule, plus a second start with the pid of a live process. Every process's projection (multiset of its messages up to ids, final task outcomes, terminal event and outputs) must equal the same (model, valuation, client table) run alone with the default cache; pids unique; duplicate start refused; no message carries a foreign pid. non-trivial = at least 3 processes ran concurrently and the capacity was below their number or two processes of the same model had different valuations; distinct = distinct (scenario hash, schedule hash)",
        level: "exploration",
        assumptions: &["runtime worker threads are approximated by task-level interleaving (layer 1)", "models without run-time generated acts (their reload is the recorded finding of C12)", "monotone simulated clock", "no storage errors are injected"],
        probes: &["probe.capacity_below_processes", "probe.evicted_and_reloaded", "probe.same_model_different_values", "probe.duplicate_start", "probe.sqlite", "probe.ten_or_more_processes", "probe.nodes_without_id"],
        quick_cases: 600,
        no_shrink: &["client"],
    }
}

fn gen_scenario(rng: &mut vsim::rng::Rng, thorough: bool) -> Scenario {
    let nmodels = 1 + rng.below(3) as usize;
    let mut sc = Scenario::default();
    let mut reactions = BTreeMap::new();
    for mi in 0..nmodels {
        let opts = LifeOpts { catches: true, scripted_actions: &["complete", "complete", "complete", "error", "skip", "submit", "abort"], p_scripted: *rng.pick(&[0, 150, 300]), adversary: None, dup: false, generators: false, hooks: false, outputs: true, drop_outputs: false };
        let mut one = gen_lifecycle(rng, &opts);
        let mut m = one.models.remove(0);
        m.id = format!("m{}", mi + 1);
        // ids must be unique per model only, keys are prefixed so that the client table is per model
        fn prefix(steps: &mut [MStep], p: &str) {
            for s in steps.iter_mut() {
                for a in s.acts.iter_mut() {
                    if !a.key.is_empty() {
                        a.key = format!("{}{}", p, a.key);
                    }
                }
                for b in s.branches.iter_mut() {
                    prefix(&mut b.steps, p);
                }
                for c in s.catches.iter_mut() {
                    prefix(&mut c.steps, p);
                }
                for a in s.acts.iter_mut() {
                    for c in a.catches.iter_mut() {
                        prefix(&mut c.steps, p);
                    }
                }
            }
        }
        let p = format!("m{}_", mi + 1);
        prefix(&mut m.steps, &p);
        for (k, v) in one.client.reactions {
            reactions.insert(format!("{}{}", p, k), v);
        }
        // a writer and a reader of the shared names
        if let Some(s) = m.steps.first_mut() {
            if !s.acts.is_empty() {
                s.acts.insert(0, MAct { id: format!("wr{}", mi), kind: ActKind::Code("$set(\"a\", a + 10);".into()), ..Default::default() });
                s.acts.push(MAct { id: format!("rd{}", mi), key: format!("{}reader", p), kind: ActKind::Msg, params: json!({"a": "{{ a }}", "b": "{{ b }}"}), ..Default::default() });
            }
        }
        // the process env: written by scripts somewhere along the flow (a per-process value, every writer its own
        // key: writers in parallel branches must not race for one key, the outcome would depend on the schedule by
        // the program's own fault), read by the last step - what a script has put there must still be there after the process was evicted and reloaded
        if rng.below(5) < 4 {
            let mut n = 0;
            fn env_writers(steps: &mut [MStep], rng: &mut vsim::rng::Rng, n: &mut u32, mi: usize) {
                for s in steps.iter_mut() {
                    if !s.acts.is_empty() && rng.below(3) == 0 {
                        *n += 1;
                        let pos = rng.below(s.acts.len() as u64 + 1) as usize;
                        s.acts.insert(pos, MAct { id: format!("ew{}_{}", mi, n), kind: ActKind::Code(format!("$env.e{} = a * 10 + b + {};", *n, 100 * *n)), ..Default::default() });
                    }
                    for b in s.branches.iter_mut() {
                        env_writers(&mut b.steps, rng, n, mi);
                    }
                }
            }
            env_writers(&mut m.steps, rng, &mut n, mi);
            m.steps.push(MStep { id: format!("envrd{}", mi), acts: vec![MAct { id: format!("envrd{}_m", mi), key: format!("{}env_reader", p), kind: ActKind::Msg, params: json!({"e1": "{{ $env.e1 }}", "e2": "{{ $env.e2 }}", "e3": "{{ $env.e3 }}", "e4": "{{ $env.e4 }}", "e5": "{{ $env.e5 }}", "e6": "{{ $env.e6 }}"}), ..Default::default() }], ..Default::default() });
        }
        m.outputs.insert("a".into(), None);
        m.outputs.insert("b".into(), None);
        sc.models.push(m);
    }
    sc.client.reactions = reactions;
    let n = if thorough { 2 + rng.below(63) as usize } else { 2 + rng.below(11) as usize };
    for i in 0..n {
        let mi = rng.below(nmodels as u64) as usize;
        let mut vars = Map::new();
        vars.insert("a".into(), json!(rng.range(0, 3)));
        vars.insert("b".into(), json!(rng.range(0, 3)));
        sc.starts.push(Start { model: format!("m{}", mi + 1), vars, pid: Some(format!("p{}", i + 1)), at_q: 0 });
    }
    sc.engine.cache_cap = *rng.pick(&[1, 2, (n as i64 / 2).max(1), n as i64, 1024]);
    // explicit evictions at quiescent points (a process that is evicted while it is in use is kept
    // alive by the engine; at a quiescent point it is really dropped and reloaded from the store)
    if rng.below(2) == 0 {
        for _ in 0..(1 + rng.below(4)) {
            sc.faults.push(FaultOp { at_q: 1 + rng.below(3 * n as u64) as usize, kind: "evict".into(), arg: rng.below(n as u64) as i64 });
        }
    }
    sc.engine.store = if rng.below(4) == 0 { "sqlite".into() } else { "mem".into() };
    // with the default retention a finished process is removed at once; the final task table is then
    // read from the trace only
    sc.engine.keep_processes = rng.below(3) != 0;
    // mostly a client that acts at quiescent points (canonical order within a process); sometimes one
    // that answers inside the message handler, while other tasks of the process are still queued
    sc.client.mode = if rng.below(5) == 0 { "inline".into() } else { "sequential".into() };
    sc.client.order = "random_pid_canonical".into();
    sc.knobs = random_knobs(rng);
    sc.max_ops = 2000;
    sc.step_cap = 200_000;
    sc.capture = false;
    // some nodes without an id in the YAML (the generated id must be the same after a reload from the store)
    if rng.below(3) == 0 {
        for m in sc.models.iter_mut() {
            anonymise(m, rng, 400, false);
        }
    }
    sc
}

#[derive(Debug, PartialEq)]
struct Proj {
    messages: Vec<String>,
    outcome: BTreeMap<String, Vec<String>>,
    terminal: Vec<String>,
}

fn strip_ids(v: &Value, ids: &BTreeSet<String>) -> Value {
    match v {
        Value::String(s) if ids.contains(s) => json!("<id>"),
        Value::Array(a) => Value::Array(a.iter().map(|x| strip_ids(x, ids)).collect()),
        Value::Object(m) => Value::Object(m.iter().map(|(k, x)| (k.clone(), strip_ids(x, ids))).collect()),
        _ => v.clone(),
    }
}

fn project(rec: &RunRecord, pid: &str) -> Proj {
    let ids: BTreeSet<String> = rec.trans.iter().map(|t| t.tid.clone()).chain(rec.msgs.iter().map(|m| m.tid.clone())).chain(rec.started.iter().map(|p| p.0.clone())).filter(|t| t != "$").collect();
    let mut messages: Vec<String> = rec.msgs.iter().filter(|m| m.pid == pid && (m.via == "message" || m.via == "start")).map(|m| format!("{} {} {} {} {} in={} out={}", m.via, m.typ, m.nid, m.key, m.state, strip_ids(&m.inputs, &ids), strip_ids(&m.outputs, &ids))).collect();
    messages.sort();
    let mut last: BTreeMap<String, (String, String)> = BTreeMap::new();
    for t in rec.trans.iter().filter(|t| t.pid == pid) {
        last.insert(t.tid.clone(), (t.nid.clone(), t.new.clone()));
    }
    let mut outcome: BTreeMap<String, Vec<String>> = BTreeMap::new();
    for (_, (nid, st)) in last {
        let st = if st == "pending" { "skipped".to_string() } else { st };
        outcome.entry(nid).or_default().push(st);
    }
    for v in outcome.values_mut() {
        v.sort();
    }
    let terminal = rec.msgs.iter().filter(|m| m.pid == pid && (m.via == "complete" || m.via == "error")).map(|m| format!("{} {} out={} in={}", m.via, m.state, strip_ids(&m.outputs, &ids), strip_ids(&m.inputs, &ids))).collect();
    Proj { messages, outcome, terminal }
}

pub fn case(ctx: &mut CaseCtx) -> CaseOut {
    let thorough = ctx.tier == "thorough";
    let sc = ctx.scenario(|r| gen_scenario(r, thorough));
    let mut out = CaseOut { scenario: Some(sc.clone()), ..Default::default() };
    let n = sc.starts.len();
    // the multi-process run, with a second start of a live pid at the first quiescent point
    let rec = ctx.run_with(&sc, move |w| {
        if let Err(e) = w.deploy_all() {
            w.rec.lock().unwrap().rec.panics.push(format!("deploy: {e}"));
            return;
        }
        let starts = w.sc.starts.clone();
        for s in &starts {
            w.start(s);
        }
        // a second start with a pid that is live (the first process), refused or not is recorded
        if let Some(s) = starts.first() {
            let before = w.rec.lock().unwrap().rec.started.len();
            w.start(s);
            let mut g = w.rec.lock().unwrap();
            let accepted = g.rec.started.len() > before;
            if accepted {
                g.rec.started.pop();
            }
            g.rec.ops.push(OpRec { seq: vsim::seq(), qidx: 0, op: "duplicate_start".into(), detail: if accepted { "accepted".into() } else { "refused".into() } });
        }
        // starts were done by hand: the driver must not start them again
        w.sc.starts.clear();
        w.drive();
    });
    if discard_if_broken(&rec, &mut out) {
        return out;
    }
    let mut v: Vec<Violation> = vec![];
    ctx.count("probe.duplicate_start", 1);
    // one process must not be able to stop the engine for the others
    if let Some(p) = rec.panics.iter().find(|p| p.contains("event_loop")) {
        v.push(Violation::new("C13", "scheduler_loop_died", json!({"keep_processes": sc.engine.keep_processes}), format!("the scheduler loop task panicked, no process makes progress any more: {}", p)));
    }
    if rec.ops.iter().any(|o| o.op == "duplicate_start" && o.detail == "accepted") {
        v.push(Violation::new("C13", "duplicate_start_accepted", json!({}), "a second start with the pid of a live process was accepted".into()));
    }
    let pids: Vec<String> = rec.started.iter().map(|p| p.0.clone()).collect();
    let uniq: BTreeSet<&String> = pids.iter().collect();
    if uniq.len() != pids.len() && v.is_empty() {
        v.push(Violation::new("C13", "pids_not_unique", json!({}), format!("started pids are not unique: {:?}", pids)));
    }
    if let Some(m) = rec.msgs.iter().find(|m| !pids.contains(&m.pid)) {
        if v.is_empty() {
            v.push(Violation::new("C13", "message_with_foreign_pid", json!({}), format!("a message carries pid {} that is not one of the started processes", m.pid)));
        }
    }
    if rec.step_cap_hit && v.is_empty() {
        out.discarded = Some("multi-process run hit the step cap".into());
        return out;
    }
    if (sc.engine.cache_cap as usize) < n {
        ctx.count("probe.capacity_below_processes", 1);
    }
    if rec.trans.iter().any(|t| t.pure_write) {
        ctx.count("probe.evicted_and_reloaded", 1);
    }
    if sc.engine.store == "sqlite" {
        ctx.count("probe.sqlite", 1);
    }
    if sc.models.iter().any(|m| !m.anon.is_empty()) {
        ctx.count("probe.nodes_without_id", 1);
    }
    if n >= 10 {
        ctx.count("probe.ten_or_more_processes", 1);
    }
    // solo runs per distinct (model, valuation)
    let mut solo: BTreeMap<String, Proj> = BTreeMap::new();
    let mut same_model_diff = false;
    let mut seen: BTreeMap<String, String> = BTreeMap::new();
    for s in &sc.starts {
        let vk = Value::Object(s.vars.clone()).to_string();
        if let Some(o) = seen.get(&s.model) {
            if o != &vk {
                same_model_diff = true;
            }
        }
        seen.insert(s.model.clone(), vk);
    }
    if same_model_diff {
        ctx.count("probe.same_model_different_values", 1);
    }
    // a client that answers inside the handler races with the queued tasks of its process: which of two
    // actions lands first is then a legitimate schedule effect, the projections are not compared
    if v.is_empty() && sc.client.mode == "sequential" {
        for (i, s) in sc.starts.iter().enumerate() {
            let key = format!("{}|{}", s.model, Value::Object(s.vars.clone()));
            if !solo.contains_key(&key) {
                let mut one = sc.clone();
                one.starts = vec![Start { pid: Some("solo".into()), ..s.clone() }];
                one.engine.cache_cap = 1024;
                one.engine.store = "mem".into();
                one.knobs = SimKnobs { policy: "fifo".into(), tie_permille: 0, max_delta_us: 40 };
                one.client.order = "canonical".into();
                let r1 = ctx.run(&one);
                solo.insert(key.clone(), project(&r1, "solo"));
            }
            let pid = s.pid.clone().unwrap_or_else(|| format!("p{}", i + 1));
            let mine = project(&rec, &pid);
            let alone = &solo[&key];
            // a process that cannot finish alone (an interrupt whose scripted answer is refused) stops at a
            // point that legitimately depends on the order in which parallel branches were served
            if alone.terminal.is_empty() {
                ctx.count("solo_run_unfinished", 1);
                continue;
            }
            // the solo projection uses pid "solo": pids inside values are normalised by strip_ids (started pids)
            let norm = |p: &Proj| Proj { messages: p.messages.iter().map(|m| m.replace(&format!("\"{}\"", pid), "\"<pid>\"").replace("\"solo\"", "\"<pid>\"")).collect(), outcome: p.outcome.clone(), terminal: p.terminal.iter().map(|m| m.replace(&format!("\"{}\"", pid), "\"<pid>\"").replace("\"solo\"", "\"<pid>\"")).collect() };
            let (a, b) = (norm(&mine), norm(alone));
            let evicted = rec.trans.iter().any(|t| t.pid == pid && t.pure_write);
            let sig = |what: &str| json!({"differs": what, "process_was_reloaded": evicted});
            if a.outcome != b.outcome {
                let diff: Vec<String> = b.outcome.iter().filter(|(k, x)| a.outcome.get(*k) != Some(x)).map(|(k, x)| format!("{}: alone {:?} / here {:?}", k, x, a.outcome.get(k))).chain(a.outcome.iter().filter(|(k, _)| !b.outcome.contains_key(*k)).map(|(k, x)| format!("{}: alone none / here {:?}", k, x))).collect();
                v.push(Violation::new("C13", "outcome_differs_from_solo_run", sig("task_outcomes"), format!("process {} ({} {}), cache {} with {} processes on {}: {}", pid, s.model, Value::Object(s.vars.clone()), sc.engine.cache_cap, n, sc.engine.store, diff.join("; "))));
                break;
            }
            if a.messages != b.messages {
                let only_a: Vec<&String> = a.messages.iter().filter(|m| !b.messages.contains(m)).collect();
                let only_b: Vec<&String> = b.messages.iter().filter(|m| !a.messages.contains(m)).collect();
                v.push(Violation::new("C13", "outcome_differs_from_solo_run", sig("messages"), format!("process {} ({} {}), cache {} with {} processes: only here {:?}; only alone {:?}", pid, s.model, Value::Object(s.vars.clone()), sc.engine.cache_cap, n, only_a.iter().take(2).collect::<Vec<_>>(), only_b.iter().take(2).collect::<Vec<_>>())));
                break;
            }
            if a.terminal != b.terminal {
                v.push(Violation::new("C13", "outcome_differs_from_solo_run", sig("terminal_event"), format!("process {} ({} {}): terminal event here {:?} / alone {:?}", pid, s.model, Value::Object(s.vars.clone()), a.terminal, b.terminal)));
                break;
            }
        }
    }
    out.violations = v;
    out.nontrivial = n >= 3 && ((sc.engine.cache_cap as usize) < n || same_model_diff);
    out.outcome_hash = outcome_hash(&rec);
    out.sample = sample_of(&sc, json!({"processes": n, "cache_cap": sc.engine.cache_cap, "store": sc.engine.store, "solo_runs": solo.len(), "messages": rec.msgs.len()}));
    let _ = completer_for;
    out
}

// ---------------------------------------------------------------------------------------------
// part (b), layer 2: client threads act while the engine's own thread is in the middle of its work

pub fn def_b() -> CheckDef {
    CheckDef {
        id: "C13b",
        title: "Isolation: the outcome does not depend on how client threads interleave with the engine's thread (layer 2)",
        case: case_b,
        rule: "case = generated model with parallel structure (multi-branch steps, block/parallel/sequence acts) x scripted client (complete / skip / abort / error / submit / remove) played by 1..3 virtual client threads that answer every interrupt as soon as its message has been delivered, while the executor runs as one more virtual thread (in a third of the cases the process first reaches its interrupts at a quiescent point and is dropped from the cache, so that the threads have to bring it back from the store; in a sixth two further threads start a process with one and the same pid at the same moment - exactly one call is accepted): the baton moves at intercepted engine lock acquisitions (preemption probability 1% / 10% / 50%), so a client action lands in the middle of the scheduler's work on the same process (between a check and the lock, between two queued siblings) x seeded baton choices. Judged by the invariants that hold for every interleaving: no terminal task state is rewritten and stages only move forward (C02's monitor), at most one terminal message per task and stream/trace agreement (C08's monitor), nothing open beneath a completed task and one terminal event at the final quiescent point (C03's oracle), no deadlock of the engine on its own locks, no panic; with the default retention (half of the cases) a process that has delivered its terminal event has no row left at the final quiescent point. non-trivial = a client call overlapped engine work (a baton switch inside a client call) and at least one non-complete action was accepted; distinct = distinct (scenario hash, schedule hash)",
        level: "exploration",
        assumptions: &["preemption happens at engine lock acquisitions (all shared engine state is behind these locks)", "virtual threads are real OS threads released one at a time; the interleaving is the decision trace", "monotone simulated clock"],
        probes: &["probe.switch_inside_client_call", "probe.forced_switch", "probe.three_client_threads", "probe.non_complete_action_accepted", "probe.action_while_tasks_queued", "probe.evicted_before_the_threads", "probe.racing_duplicate_start", "probe.default_retention"],
        quick_cases: 3000,
        no_shrink: &[],
    }
}

pub fn case_b(ctx: &mut CaseCtx) -> CaseOut {
    let sc = ctx.scenario(|rng| {
        let opts = LifeOpts { catches: rng.below(4) == 0, scripted_actions: &["skip", "skip", "abort", "error", "submit", "remove", "complete"], p_scripted: *rng.pick(&[300, 500, 700]), adversary: None, dup: rng.below(3) == 0, generators: true, hooks: false, outputs: false, drop_outputs: false };
        let mut sc = gen_lifecycle(rng, &opts);
        sc.client.mode = "sequential".into();
        // default retention in half of the cases: the process and its rows are removed when it ends, while client
        // threads may still be acting on it
        sc.engine.keep_processes = rng.below(2) == 0;
        sc.knobs = random_knobs(rng);
        // number of client threads and preemption rate travel in the scenario (replays)
        sc.max_ops = 1 + rng.below(3) as u32;
        sc.pre_jump_us = *rng.pick(&[10i64, 100, 500]);
        sc.ticks = match rng.below(6) {
            0 | 1 => 1,
            2 => 2,
            _ => 0,
        };
        if sc.ticks == 2 {
            // racing starts of one pid are judged while the first process is kept (with the default retention the pid
            // is free again once that process has ended)
            sc.engine.keep_processes = true;
        }
        sc.capture = true;
        sc
    });
    let n_threads = sc.max_ops.clamp(1, 3) as usize;
    // carried in the scenario as well: a third of the cases evict the process before the threads start
    let evict_first = sc.ticks == 1;
    // ... and a sixth let two further threads start a process with one and the same pid at the same moment
    let racing_start = sc.ticks == 2;
    let start_results: std::sync::Arc<std::sync::Mutex<Vec<bool>>> = Default::default();
    let start_results2 = start_results.clone();
    if racing_start {
        ctx.count("probe.racing_duplicate_start", 1);
    }
    if evict_first {
        ctx.count("probe.evicted_before_the_threads", 1);
    }
    let preempt = sc.pre_jump_us.clamp(1, 900) as u32;
    let stats: std::sync::Arc<std::sync::Mutex<(u64, u64, u64, Option<String>, bool)>> = Default::default();
    let stats2 = stats.clone();
    let mut sc_run = sc.clone();
    sc_run.pre_jump_us = 0;
    sc_run.ticks = 0;
    let rec = ctx.run_with(&sc_run, move |w| {
        if let Err(e) = w.deploy_all() {
            w.rec.lock().unwrap().rec.panics.push(format!("deploy: {e}"));
            return;
        }
        let starts = w.sc.starts.clone();
        if evict_first {
            // the process reaches its first interrupts, is dropped from the cache, and then several client threads
            // act on it at once: each of them has to bring it back from the store
            for s in &starts {
                w.start(s);
            }
            w.settle();
            w.capture("before the eviction");
            w.qidx += 1;
            let pids: Vec<String> = w.live().iter().map(|p| p.pid.clone()).collect();
            for pid in pids {
                w.evict(&pid);
            }
            vsim::vthread::begin(preempt);
        } else {
            vsim::vthread::begin(preempt);
            for s in &starts {
                w.start(s);
            }
        }
        let mut hs = vec![];
        if racing_start {
            // two more client threads start a process with the same pid `dup` at the same moment: one of them wins
            for i in 0..2 {
                let engine = w.engine().clone();
                let epoch = w.epoch;
                let model = starts[0].model.clone();
                let results = start_results2.clone();
                hs.push(vsim::vthread::spawn(&format!("starter{}", i), move || {
                    vsim::set_epoch(epoch);
                    let vars: acts::Vars = serde_json::json!({"pid": "dup", "a": 1, "b": 1}).into();
                    let r = engine.executor().proc().start(&model, &vars);
                    vsim::log(&format!("START dup by starter{} -> {:?}", i, r.is_ok()));
                    results.lock().unwrap().push(r.is_ok());
                }));
            }
        }
        for i in 0..n_threads {
            let engine = w.engine().clone();
            let rec = w.rec.clone();
            let client = w.sc.client.clone();
            let epoch = w.epoch;
            hs.push(vsim::vthread::spawn(&format!("client{}", i), move || {
                vsim::set_epoch(epoch);
                let mut done = 0;
                let mut idle = 0;
                loop {
                    let oa = {
                        let mut g = rec.lock().unwrap();
                        if g.open.is_empty() {
                            None
                        } else {
                            Some(g.open.remove(0))
                        }
                    };
                    match oa {
                        Some(oa) => {
                            idle = 0;
                            crate::world::react(&engine, &rec, &client, &oa, false);
                            done += 1;
                            if done >= 60 {
                                break;
                            }
                        }
                        None => {
                            idle += 1;
                            // nothing to answer: let the others run; when nobody else can run either, the run is over
                            if !vsim::vthread::point(true) || idle > 400 {
                                break;
                            }
                        }
                    }
                }
            }));
        }
        let (_n, ok) = crate::layer2::run_executor_with_threads(200_000);
        let st = vsim::vthread::end();
        for h in hs {
            let _ = h.join();
        }
        *stats2.lock().unwrap() = (st.points, st.switches, st.forced, st.deadlock, ok);
        w.settle();
        w.capture("after the threads");
        w.qidx += 1;
    });
    let mut out = CaseOut { scenario: Some(sc.clone()), ..Default::default() };
    let st = stats.lock().unwrap().clone();
    if let Some(d) = &st.3 {
        out.violations.push(Violation::new("C13", "engine_lock_deadlock", json!({"threads": true}), format!("the engine deadlocked on its own locks while client threads were acting: {}", d)));
        return out;
    }
    if discard_if_broken(&rec, &mut out) {
        return out;
    }
    if !st.4 {
        out.discarded = Some("threads did not settle within the step cap".into());
        return out;
    }
    ctx.count("layer2.sched_points", st.0);
    ctx.count("layer2.switches", st.1);
    if st.2 > 0 {
        ctx.count("probe.forced_switch", 1);
    }
    if n_threads == 3 {
        ctx.count("probe.three_client_threads", 1);
    }
    // a baton switch inside a client call: some state write or message of the engine lies inside a call's interval
    let inside = rec.actions.iter().any(|a| rec.trans.iter().any(|t| t.seq > a.seq0 && t.seq < a.seq1 && !rec.trans.iter().any(|u| u.seq == t.seq && false)) && rec.msgs.iter().any(|m| m.seq > a.seq0 && m.seq < a.seq1));
    if inside {
        ctx.count("probe.switch_inside_client_call", 1);
    }
    let non_complete = rec.actions.iter().any(|a| a.ok && a.action != "complete");
    if non_complete {
        ctx.count("probe.non_complete_action_accepted", 1);
    }
    // an accepted action while tasks of the same process were still waiting in the queue (created, not yet initialised)
    let queued_then = rec.actions.iter().filter(|a| a.ok).any(|a| {
        let created: std::collections::BTreeSet<&str> = rec.trans.iter().filter(|t| t.pid == a.pid && t.seq < a.seq0 && t.old == "none").map(|t| t.tid.as_str()).collect();
        let started: std::collections::BTreeSet<&str> = rec.trans.iter().filter(|t| t.pid == a.pid && t.seq < a.seq0 && t.old != "none").map(|t| t.tid.as_str()).collect();
        created.iter().any(|t| !started.contains(t))
    });
    if queued_then {
        ctx.count("probe.action_while_tasks_queued", 1);
    }
    let mut v: Vec<Violation> = vec![];
    if racing_start {
        let oks = start_results.lock().unwrap().iter().filter(|x| **x).count();
        let started = rec.msgs.iter().filter(|m| m.via == "start" && m.pid == "dup").count();
        // with the default retention the pid is free again as soon as the first `dup` process has ended and is
        // removed: a second accepted start is then no duplicate
        let first_ended = rec.msgs.iter().any(|m| (m.via == "complete" || m.via == "error") && m.pid == "dup");
        if (oks != 1 || started > 1) && !(first_ended && !sc.engine.keep_processes) {
            v.push(Violation::new("C13", "racing_duplicate_start", json!({"accepted": oks.min(3), "start_events": started.min(3)}), format!("two client threads started a process with the pid `dup` at the same moment: {} calls were accepted and {} start events were delivered (one of each is right)", oks, started)));
        }
    }
    // default retention: a process that has delivered its terminal event leaves no row behind, whatever the client
    // threads were doing while it ended
    if v.is_empty() && !sc.engine.keep_processes {
        ctx.count("probe.default_retention", 1);
        if let Some(q) = rec.qpoints.last() {
            for end in rec.msgs.iter().filter(|m| m.via == "complete" || m.via == "error") {
                if let Some(p) = q.rows.iter().find(|p| p.pid == end.pid) {
                    v.push(Violation::new("C13", "rows_left_after_end_under_threads", json!({"ending": end.state, "task_rows": p.tasks.len().min(9) > 0}), format!("process {} delivered its terminal event ({}) while client threads were acting; at the final quiescent point the store still holds its process row (state {}) and {} task rows", end.pid, end.state, p.state, p.tasks.len())));
                    break;
                }
            }
        }
    }
    for (name, found) in [("task_lifecycle", super::c02::lifecycle_oracle(&sc, &rec)), ("message_stream", super::c08::stream_oracle(&sc, &rec)), ("hierarchy", super::c03::hierarchy_oracle(&sc, &rec))] {
        if !v.is_empty() {
            break;
        }
        if let Some(f) = found.into_iter().next() {
            v.push(Violation::new("C13", "threaded_run_breaks_invariant", json!({"invariant": name, "kind": f.kind, "of": f.property}), format!("{} client thread(s) acting while the engine's thread works (preemption {} per mille at lock points): {} [{}] {}", n_threads, preempt, f.kind, f.signature, f.detail)));
            break;
        }
    }
    out.violations = v;
    out.nontrivial = inside && non_complete;
    out.outcome_hash = outcome_hash(&rec);
    out.sample = basic_sample(&sc, &rec, json!({"client_threads": n_threads, "preempt_permille": preempt, "lock_sched_points": st.0, "baton_switches": st.1}));
    out
}
