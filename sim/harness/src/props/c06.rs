//! C06 — Errors propagate upward unless a matching catch takes them, exactly once.
use super::common::*;
use crate::checks::*;
use crate::gen::*;
use crate::model::*;
use crate::obs::*;
use crate::scenario::*;
use serde_json::json;
use std::collections::BTreeMap;

pub fn def() -> CheckDef {
    CheckDef {
        id: "C06",
        title: "Errors propagate upward unless a matching catch takes them, exactly once",
        case,
        rule: "case = generated model with catches on acts and steps (nested, several codes, catch-all, empty catch, non-matching) x one error source (client `error` action with a seeded code at a seeded open interrupt, a throwing script, or an unknown package) while other acts may be open, in 45% of the client cases followed by a second client error at an interrupt inside the steps of the catch that took the first (a task catches only once; the inner steps' own catches still do) x seeded schedule; the oracle derives from the model which task must take the error (first matching catch walking up from the failing act) and checks the propagation chain (states, original code and message), that exactly the first matching catch's steps run exactly once, that the catching task completes and its successor runs, and the error/complete events. non-trivial = the error was actually raised and at least one enclosing node declares a catch; distinct = distinct (scenario hash, schedule hash)",
        level: "exploration",
        assumptions: &["monotone simulated clock", "one error source per run, or two in sequence where the second is raised inside the steps of the catch that took the first (several simultaneous errors in sibling branches are covered by the lifecycle checks C02/C03)", "no storage errors are injected"],
        probes: &["probe.caught_at_act", "probe.caught_at_step", "probe.caught_at_outer_step", "probe.uncaught", "probe.non_matching_catch", "probe.catch_all", "probe.empty_catch", "probe.second_catch_matches", "probe.script_error", "probe.unknown_package", "probe.second_error_in_catch_steps", "probe.second_error_caught_inside", "probe.second_error_caught_above", "probe.second_error_uncaught"],
        quick_cases: 6000,
        no_shrink: &[],
    }
}

/// path of enclosing nodes from the root to the act with id `aid`: (kind, id)
fn path_to(m: &MWorkflow, aid: &str) -> Option<Vec<(String, String)>> {
    fn in_steps(steps: &[MStep], aid: &str, path: &mut Vec<(String, String)>) -> bool {
        for s in steps {
            path.push(("step".into(), s.id.clone()));
            for a in &s.acts {
                if a.id == aid {
                    path.push(("act".into(), a.id.clone()));
                    return true;
                }
                for c in &a.catches {
                    path.push(("act".into(), a.id.clone()));
                    if in_steps(&c.steps, aid, path) {
                        return true;
                    }
                    path.pop();
                }
            }
            for b in &s.branches {
                path.push(("branch".into(), b.id.clone()));
                if in_steps(&b.steps, aid, path) {
                    return true;
                }
                path.pop();
            }
            for c in &s.catches {
                if in_steps(&c.steps, aid, path) {
                    return true;
                }
            }
            path.pop();
        }
        false
    }
    let mut path = vec![("workflow".to_string(), m.id.clone())];
    if in_steps(&m.steps, aid, &mut path) {
        Some(path)
    } else {
        None
    }
}

fn catches_of(m: &MWorkflow, kind: &str, id: &str) -> Vec<MCatch> {
    match kind {
        "act" => find_act(std::slice::from_ref(m), id).map(|a| a.catches).unwrap_or_default(),
        "step" => find_step(std::slice::from_ref(m), id).map(|s| s.catches).unwrap_or_default(),
        _ => vec![],
    }
}

/// first node walking up `path` (from the failing act) that declares a catch matching `code`; `used` = index of a
/// node that has already taken an error (a task is revived by its catch only once)
fn find_catcher(m: &MWorkflow, path: &[(String, String)], code: &str, used: Option<usize>) -> (Option<(usize, MCatch, usize)>, bool, bool) {
    let matches = |c: &MCatch| c.on.is_none() || c.on.as_deref() == Some(code);
    let mut any_catch = false;
    let mut non_matching = false;
    for i in (0..path.len()).rev() {
        if used == Some(i) {
            continue;
        }
        let cs = catches_of(m, &path[i].0, &path[i].1);
        if !cs.is_empty() {
            any_catch = true;
        }
        if let Some((ci, c)) = cs.iter().enumerate().find(|(_, c)| matches(c)) {
            return (Some((i, c.clone(), ci)), any_catch, non_matching);
        } else if !cs.is_empty() {
            non_matching = true;
        }
    }
    (None, any_catch, non_matching)
}

fn gen_scenario(rng: &mut vsim::rng::Rng) -> Scenario {
    let mut cfg = GenCfg::control();
    cfg.p_branches = *rng.pick(&[0, 300, 500]);
    cfg.p_needs = 0;
    cfg.p_else = *rng.pick(&[0, 500]);
    cfg.p_step_if = 0;
    cfg.p_act_if = 0;
    cfg.p_empty_step = 0;
    cfg.p_empty_branch = 0;
    cfg.max_steps = 1 + rng.below(3) as u32;
    cfg.p_catch = *rng.pick(&[300, 600, 900]);
    cfg.w_irq = 7;
    cfg.w_msg = 2;
    let mut g = Gen::new(rng, cfg);
    let mut m = g.workflow("m");
    // conditions are all true: the flow is fully determined, only the error changes it
    fn truthy(s: &mut MStep) {
        for b in s.branches.iter_mut() {
            if let BranchKind::If(c) = &mut b.kind {
                *c = Cond::True;
            }
            for s2 in b.steps.iter_mut() {
                truthy(s2);
            }
        }
        for c in s.catches.iter_mut() {
            for s2 in c.steps.iter_mut() {
                truthy(s2);
            }
        }
    }
    for s in m.steps.iter_mut() {
        truthy(s);
    }
    // the error source: an irq act outside of catch steps
    let mut irqs: Vec<MAct> = vec![];
    fn collect(steps: &[MStep], out: &mut Vec<MAct>) {
        for s in steps {
            for a in &s.acts {
                if matches!(a.kind, ActKind::Irq) {
                    out.push(a.clone());
                }
            }
            for b in &s.branches {
                collect(&b.steps, out);
            }
        }
    }
    collect(&m.steps, &mut irqs);
    let mut sc = Scenario::default();
    let source = rng.below(10);
    if !irqs.is_empty() {
        let a = rng.pick(&irqs).clone();
        let code = rng.pick(&["e1", "e2", "e3", "e9"]).to_string();
        if source < 8 {
            let mut o = serde_json::Map::new();
            o.insert("ecode".into(), json!(code));
            o.insert("message".into(), json!("boom"));
            sc.client.reactions.insert(a.key.clone(), vec![Reaction { action: "error".into(), options: o, repeat: 0 }, Reaction::complete()]);
            // sometimes a second error, raised inside the steps of the catch that takes the first one (its own
            // catches may take it; the task that has already caught must not catch again)
            if rng.below(100) < 45 {
                if let Some(path) = path_to(&m, &a.id) {
                    if let (Some((_, c, _)), _, _) = find_catcher(&m, &path, &code, None) {
                        let mut inner: Vec<MAct> = vec![];
                        collect(&c.steps, &mut inner);
                        inner.retain(|x| !x.key.is_empty() && x.key != a.key);
                        if !inner.is_empty() {
                            let a2 = rng.pick(&inner).clone();
                            let code2 = rng.pick(&["e1", "e2", "e3", "e9"]).to_string();
                            let mut o2 = serde_json::Map::new();
                            o2.insert("ecode".into(), json!(code2));
                            o2.insert("message".into(), json!("boom2"));
                            sc.client.reactions.insert(a2.key.clone(), vec![Reaction { action: "error".into(), options: o2, repeat: 0 }, Reaction::complete()]);
                            // often the step that holds the second failing act (a step of the first catch) gets a catch
                            // of its own: matching (it must take the second error although an enclosing task has
                            // already caught once), catch-all, or for another code
                            if rng.below(100) < 60 {
                                let on = match rng.below(4) {
                                    0 => None,
                                    1 => Some(rng.pick(&["e1", "e2", "e3", "e9"]).to_string()),
                                    _ => Some(code2.clone()),
                                };
                                let inner_step = MStep { id: format!("nc_{}", a2.id), acts: vec![MAct { id: format!("ncm_{}", a2.id), key: format!("ncm_{}", a2.id), kind: ActKind::Msg, ..Default::default() }], ..Default::default() };
                                fn add_catch(steps: &mut [MStep], aid: &str, c: &MCatch) -> bool {
                                    for s in steps.iter_mut() {
                                        if s.acts.iter().any(|a| a.id == aid) {
                                            s.catches.push(c.clone());
                                            return true;
                                        }
                                        for a in s.acts.iter_mut() {
                                            for k in a.catches.iter_mut() {
                                                if add_catch(&mut k.steps, aid, c) {
                                                    return true;
                                                }
                                            }
                                        }
                                        for b in s.branches.iter_mut() {
                                            if add_catch(&mut b.steps, aid, c) {
                                                return true;
                                            }
                                        }
                                        for k in s.catches.iter_mut() {
                                            if add_catch(&mut k.steps, aid, c) {
                                                return true;
                                            }
                                        }
                                    }
                                    false
                                }
                                add_catch(&mut m.steps, &a2.id, &MCatch { on, steps: vec![inner_step] });
                            }
                        }
                    }
                }
            }
        } else {
            // replace the act by one that fails by itself (ecode ""): a throwing script or an unknown package
            fn replace(steps: &mut [MStep], id: &str, kind: &ActKind) {
                for s in steps.iter_mut() {
                    for x in s.acts.iter_mut() {
                        if x.id == id {
                            x.kind = kind.clone();
                        }
                    }
                    for b in s.branches.iter_mut() {
                        replace(&mut b.steps, id, kind);
                    }
                }
            }
            let kind = if source == 8 { ActKind::Code("throw new Error(\"script failed\");".into()) } else { ActKind::Raw { uses: "no.such.package".into(), params: serde_json::Value::Null } };
            replace(&mut m.steps, &a.id, &kind);
        }
    }
    sc.models.push(m);
    sc.starts.push(Start { model: "m".into(), vars: valuation(rng, 3), pid: Some("p1".into()), at_q: 0 });
    sc.client.mode = rng.pick(&["sequential", "sequential", "spawned", "inline"]).to_string();
    sc.client.order = rng.pick(&["fifo", "random"]).to_string();
    sc.engine.keep_processes = true;
    sc.knobs = random_knobs(rng);
    sc.capture = true;
    sc
}

pub fn case(ctx: &mut CaseCtx) -> CaseOut {
    let sc = ctx.scenario(gen_scenario);
    let rec = ctx.run(&sc);
    let mut out = CaseOut { scenario: Some(sc.clone()), ..Default::default() };
    if discard_if_broken(&rec, &mut out) || sc.models.is_empty() {
        return out;
    }
    let m = &sc.models[0];
    // where was the error raised?
    let failing: Option<(String, String, String)> = {
        // (act id, code, source)
        let by_client = rec.actions.iter().find(|a| a.action == "error" && a.ok).and_then(|a| {
            let nid = rec.trans.iter().find(|t| t.tid == a.tid).map(|t| t.nid.clone())?;
            Some((nid, a.options.get("ecode").and_then(|v| v.as_str()).unwrap_or("").to_string(), "client".to_string()))
        });
        by_client.or_else(|| {
            let mut f = None;
            m.visit_acts(&mut |a| {
                let src = match &a.kind {
                    ActKind::Code(s) if s.contains("throw") => Some("script"),
                    ActKind::Raw { .. } => Some("package"),
                    _ => None,
                };
                if let Some(src) = src {
                    if rec.trans.iter().any(|t| t.nid == a.id && t.new == "error") {
                        f = Some((a.id.clone(), String::new(), src.to_string()));
                    }
                }
            });
            f
        })
    };
    let Some((aid, code, source)) = failing else {
        out.sample = basic_sample(&sc, &rec, json!({"error": "not raised"}));
        out.outcome_hash = outcome_hash(&rec);
        return out;
    };
    if source == "script" {
        ctx.count("probe.script_error", 1);
    }
    if source == "package" {
        ctx.count("probe.unknown_package", 1);
    }
    let Some(path) = path_to(m, &aid) else {
        out.discarded = Some("failing act not on a plain path".into());
        return out;
    };
    // the catcher: walking up from the failing act
    let (catcher, any_catch, non_matching) = find_catcher(m, &path, &code, None);
    if non_matching {
        ctx.count("probe.non_matching_catch", 1);
    }
    // observed final states per node id
    let mut last: BTreeMap<(String, String), (String, String)> = BTreeMap::new();
    for t in &rec.trans {
        last.insert((t.pid.clone(), t.tid.clone()), (t.nid.clone(), t.new.clone()));
    }
    let mut fin: BTreeMap<String, Vec<String>> = BTreeMap::new();
    for (_, (nid, st)) in &last {
        fin.entry(nid.clone()).or_default().push(st.clone());
    }
    let ev_err = rec.msgs.iter().filter(|m| m.via == "error" && m.pid == "p1").count();
    let ev_done = rec.msgs.iter().filter(|m| m.via == "complete" && m.pid == "p1").count();
    let live = rec.qpoints.last().and_then(|q| q.live.iter().find(|p| p.pid == "p1"));
    let mut v = vec![];
    // a second error that was accepted (inside the steps of the catch that took the first one)?
    let errors: Vec<&ActionRec> = rec.actions.iter().filter(|a| a.action == "error" && a.ok).collect();
    if errors.len() >= 2 {
        ctx.count("probe.second_error_in_catch_steps", 1);
        let e2 = errors[1];
        let aid2 = rec.trans.iter().find(|t| t.tid == e2.tid).map(|t| t.nid.clone()).unwrap_or_default();
        let code2 = e2.options.get("ecode").and_then(|x| x.as_str()).unwrap_or("").to_string();
        let (Some(path2), Some((i1, _, _))) = (path_to(m, &aid2), catcher.as_ref()) else {
            out.discarded = Some("second error outside of the first catch's steps".into());
            return out;
        };
        // the node that took the first error lies on the path of the second one and is used up
        let used = path2.iter().position(|n| n == &path[*i1]);
        if used.is_none() {
            out.discarded = Some("second error outside of the first catch's steps".into());
            return out;
        }
        let (catcher2, _, _) = find_catcher(m, &path2, &code2, used);
        let sig2 = |what: &str| json!({"second_error": true, "what": what, "catcher2": catcher2.as_ref().map(|(i, _, _)| if Some(*i) > used { "inside_first_catch_steps" } else { "above_first_catcher" }).unwrap_or("none")});
        match &catcher2 {
            Some((i2, c2, ci2)) => {
                ctx.count(if Some(*i2) > used { "probe.second_error_caught_inside" } else { "probe.second_error_caught_above" }, 1);
                let (ck, cid) = path2[*i2].clone();
                for s in &c2.steps {
                    let got = fin.get(&s.id).cloned().unwrap_or_default();
                    if got != vec!["completed".to_string()] {
                        v.push(Violation::new("C06", "catch_steps_not_run_once", sig2("matching_catch_steps"), format!("second error `{}` at act {} (inside the steps of the catch that took `{}` from act {}) matches catch #{} ({:?}) of {} {}: its step {} has instances {:?} instead of exactly one completed", code2, aid2, code, aid, ci2, c2.on, ck, cid, s.id, got)));
                        break;
                    }
                }
                if v.is_empty() {
                    let got = fin.get(&cid).cloned().unwrap_or_default();
                    if got != vec!["completed".to_string()] {
                        v.push(Violation::new("C06", "catcher_did_not_complete", sig2("catcher"), format!("second error `{}` at act {} is taken by {} {} (the first matching catch walking up; {} {} has already caught once) but that task ended {:?}", code2, aid2, ck, cid, path[*i1].0, path[*i1].1, got)));
                    }
                }
                if v.is_empty() {
                    for (k, id) in path2.iter().skip(i2 + 1) {
                        let got = fin.get(id).cloned().unwrap_or_default();
                        if got != vec!["error".to_string()] {
                            v.push(Violation::new("C06", "propagation_chain_broken", sig2("below_catcher"), format!("second error `{}` at act {}: {} {} below the catching {} {} ended {:?} instead of [error]", code2, aid2, k, id, ck, cid, got)));
                            break;
                        }
                    }
                }
                if v.is_empty() && (ev_err != 0 || ev_done != 1) {
                    v.push(Violation::new("C06", "error_event_count", json!({"error_events": ev_err, "complete_events": ev_done, "caught": true, "second_error": true}), format!("both errors are caught (`{}` at {} and `{}` at {}): {} error events and {} complete events were delivered (must be 0 and 1)", code, aid, code2, aid2, ev_err, ev_done)));
                }
            }
            None => {
                ctx.count("probe.second_error_uncaught", 1);
                for (k, id) in &path2 {
                    let got = fin.get(id).cloned().unwrap_or_default();
                    if got != vec!["error".to_string()] {
                        v.push(Violation::new("C06", "propagation_chain_broken", sig2("uncaught"), format!("second error `{}` at act {} has no catch left to take it ({} {} has already caught once): enclosing {} {} ended {:?} instead of [error]", code2, aid2, path[*i1].0, path[*i1].1, k, id, got)));
                        break;
                    }
                }
                if v.is_empty() && (ev_err != 1 || ev_done != 0) {
                    v.push(Violation::new("C06", "error_event_count", json!({"error_events": ev_err, "complete_events": ev_done, "caught": false, "second_error": true}), format!("second error `{}` at act {} is not caught: {} error events and {} complete events were delivered (must be 1 and 0)", code2, aid2, ev_err, ev_done)));
                }
            }
        }
        out.violations = v;
        out.nontrivial = true;
        out.outcome_hash = outcome_hash(&rec);
        out.sample = basic_sample(&sc, &rec, json!({"failing_act": aid, "code": code, "second_failing_act": aid2, "second_code": code2}));
        return out;
    }
    match &catcher {
        None => {
            ctx.count("probe.uncaught", 1);
            for (k, id) in &path {
                let got = fin.get(id).cloned().unwrap_or_default();
                if got != vec!["error".to_string()] {
                    v.push(Violation::new("C06", "propagation_chain_broken", json!({"node": k, "source": source, "catch_declared": any_catch}), format!("error `{}` raised at act {} with no matching catch: enclosing {} {} ended {:?} instead of [error]", code, aid, k, id, got)));
                    break;
                }
            }
            if v.is_empty() && (ev_err != 1 || ev_done != 0) {
                v.push(Violation::new("C06", "error_event_count", json!({"error_events": ev_err, "complete_events": ev_done, "caught": false}), format!("uncaught error `{}` at act {}: {} error events and {} complete events were delivered (must be 1 and 0)", code, aid, ev_err, ev_done)));
            }
            // original code and message all the way up
            if v.is_empty() && source == "client" {
                if let Some(p) = live {
                    for t in p.tasks.iter().filter(|t| path.iter().any(|(_, id)| id == &t.nid)) {
                        let ec = t.err.as_ref().and_then(|e| e.get("ecode")).and_then(|x| x.as_str()).unwrap_or("<none>");
                        let msg = t.err.as_ref().and_then(|e| e.get("message")).and_then(|x| x.as_str()).unwrap_or("<none>");
                        if ec != code || msg != "boom" {
                            v.push(Violation::new("C06", "error_not_original", json!({"node": t.kind}), format!("{} {} carries error ({}, {}) instead of the original ({}, boom)", t.kind, t.nid, ec, msg, code)));
                            break;
                        }
                    }
                    let pe = p.err.as_ref().and_then(|e| e.get("ecode")).and_then(|x| x.as_str()).unwrap_or("<none>");
                    if v.is_empty() && pe != code {
                        v.push(Violation::new("C06", "error_not_original", json!({"node": "process"}), format!("process carries ecode {} instead of {}", pe, code)));
                    }
                }
            }
        }
        Some((ci, c, cidx)) => {
            let (ck, cid) = path[*ci].clone();
            let where_ = if *ci == path.len() - 1 { "probe.caught_at_act" } else if *ci == path.len() - 2 { "probe.caught_at_step" } else { "probe.caught_at_outer_step" };
            ctx.count(where_, 1);
            if c.on.is_none() {
                ctx.count("probe.catch_all", 1);
            }
            if c.steps.is_empty() {
                ctx.count("probe.empty_catch", 1);
            }
            if *cidx > 0 {
                ctx.count("probe.second_catch_matches", 1);
            }
            let sig = |what: &str| json!({"catcher": ck, "what": what, "catch_index": cidx.min(&1), "empty_catch": c.steps.is_empty(), "source": source});
            // below the catcher: error
            for (k, id) in path.iter().skip(ci + 1) {
                let got = fin.get(id).cloned().unwrap_or_default();
                if got != vec!["error".to_string()] {
                    v.push(Violation::new("C06", "propagation_chain_broken", sig("below_catcher"), format!("error `{}` at act {}: {} {} below the catching {} {} ended {:?} instead of [error]", code, aid, k, id, ck, cid, got)));
                    break;
                }
            }
            // the first matching catch's steps run exactly once; the other catches' steps do not run
            if v.is_empty() {
                for s in &c.steps {
                    let got = fin.get(&s.id).cloned().unwrap_or_default();
                    if got != vec!["completed".to_string()] {
                        v.push(Violation::new("C06", "catch_steps_not_run_once", sig("matching_catch_steps"), format!("error `{}` at act {} matches catch #{} ({:?}) of {} {}: its step {} has instances {:?} instead of exactly one completed", code, aid, cidx, c.on, ck, cid, s.id, got)));
                        break;
                    }
                }
            }
            if v.is_empty() {
                for (oi, other) in catches_of(m, &ck, &cid).iter().enumerate() {
                    if oi == *cidx {
                        continue;
                    }
                    for s in &other.steps {
                        if let Some(got) = fin.get(&s.id) {
                            v.push(Violation::new("C06", "other_catch_steps_ran", sig("other_catch_steps"), format!("error `{}` at act {} is taken by catch #{} of {} {}, yet step {} of catch #{} ({:?}) ran: {:?}", code, aid, cidx, ck, cid, s.id, oi, other.on, got)));
                            break;
                        }
                    }
                    if !v.is_empty() {
                        break;
                    }
                }
            }
            // "... the catching task THEN completes": not before the last step of the catch has closed
            if v.is_empty() {
                let done_at = rec.trans.iter().filter(|t| t.nid == cid && t.new == "completed").map(|t| t.seq).max();
                let steps_closed_at = rec.trans.iter().filter(|t| c.steps.iter().any(|s| s.id == t.nid) && is_terminal_state(&t.new)).map(|t| t.seq).max();
                if let (Some(d), Some(sc_)) = (done_at, steps_closed_at) {
                    if d < sc_ {
                        ctx.count("probe.catcher_completed_early", 1);
                        let open_sibling = !find_step(std::slice::from_ref(m), &cid).map(|s| s.branches.is_empty()).unwrap_or(true);
                        v.push(Violation::new("C06", "catcher_completed_before_catch_steps", json!({"catcher": ck, "catcher_has_branches": open_sibling}), format!("error `{}` at act {} was taken by {} {}: the task completed (seq {}) before the steps of its catch had closed (seq {})", code, aid, ck, cid, d, sc_)));
                    }
                }
            }
            // the catching task completes, nothing above it errors, the flow continues and the process completes
            if v.is_empty() {
                let got = fin.get(&cid).cloned().unwrap_or_default();
                if got != vec!["completed".to_string()] {
                    v.push(Violation::new("C06", "catcher_did_not_complete", sig("catcher"), format!("error `{}` at act {} was taken by {} {} but that task ended {:?} instead of [completed]", code, aid, ck, cid, got)));
                }
            }
            if v.is_empty() {
                for (k, id) in path.iter().take(*ci) {
                    let got = fin.get(id).cloned().unwrap_or_default();
                    if got != vec!["completed".to_string()] {
                        v.push(Violation::new("C06", "flow_did_not_continue", sig("above_catcher"), format!("error `{}` at act {} was taken by {} {}; enclosing {} {} ended {:?} instead of [completed]", code, aid, ck, cid, k, id, got)));
                        break;
                    }
                }
            }
            if v.is_empty() {
                // successor of the catching task (next act of the step / next step of the list)
                let succ = successor_of(m, &ck, &cid);
                if let Some(sid) = succ {
                    let got = fin.get(&sid).cloned().unwrap_or_default();
                    if got.len() != 1 || got[0] != "completed" {
                        v.push(Violation::new("C06", "successor_did_not_run", sig("successor"), format!("error `{}` at act {} was taken by {} {}; its successor {} has instances {:?} instead of one completed", code, aid, ck, cid, sid, got)));
                    }
                }
            }
            if v.is_empty() && (ev_err != 0 || ev_done != 1) {
                v.push(Violation::new("C06", "error_event_count", json!({"error_events": ev_err, "complete_events": ev_done, "caught": true}), format!("caught error `{}` at act {}: {} error events and {} complete events were delivered (must be 0 and 1)", code, aid, ev_err, ev_done)));
            }
        }
    }
    out.violations = v;
    out.nontrivial = any_catch;
    out.outcome_hash = outcome_hash(&rec);
    out.sample = basic_sample(&sc, &rec, json!({"failing_act": aid, "code": code, "source": source, "catcher": catcher.as_ref().map(|(i, c, ci)| format!("{} {} catch#{} on={:?}", path[*i].0, path[*i].1, ci, c.on))}));
    out
}

/// the node that follows (kind, id) in its list: next act of the same step, or next step of the same list
fn successor_of(m: &MWorkflow, kind: &str, id: &str) -> Option<String> {
    fn in_steps(steps: &[MStep], kind: &str, id: &str) -> Option<Option<String>> {
        for (i, s) in steps.iter().enumerate() {
            if kind == "step" && s.id == id {
                return Some(steps.get(i + 1).map(|n| n.id.clone()));
            }
            for (j, a) in s.acts.iter().enumerate() {
                if kind == "act" && a.id == id {
                    return Some(s.acts.get(j + 1).map(|n| n.id.clone()));
                }
            }
            for b in &s.branches {
                if let Some(r) = in_steps(&b.steps, kind, id) {
                    return Some(r);
                }
            }
        }
        None
    }
    in_steps(&m.steps, kind, id).flatten()
}
