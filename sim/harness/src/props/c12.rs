//! C12 — Restart / reload transparency at quiescent points.
use super::common::*;
use crate::checks::*;
use crate::gen::*;
use crate::model::*;
use crate::obs::*;
use crate::scenario::*;
use serde_json::{json, Value};
use std::collections::{BTreeMap, BTreeSet};

pub fn def() -> CheckDef {
    CheckDef {
        id: "C12",
        title: "Restart / reload transparency at quiescent points",
        case,
        rule: "case = generated deterministic-outcome model (control flow, catches, generated acts, set/code writers, env; a third with steps/branches/acts written without an id - the engine generates one, observations map it back through the node name; a quarter with timeout rules on interrupts and clock jumps + ticks between the client's actions; a fifth with a call of a sub-workflow whose child completes, fails or is aborted) x scripted client table answered by a canonical sequential client (smallest (key, occurrence) first, so that the client-visible history is the same in both runs) x run A without faults, then runs B_i that inject at quiescent point i either an engine restart on the same store (SQLite file, or in-memory collections transplanted into the new engine) or an eviction of the process from the cache - at every quiescent point of A in the thorough tier, at up to 5 seeded points (plus one pair) in the quick tier. B must issue the same client actions with the same results, produce per phase (between two client actions) the same multiset of messages up to ids/tids/timestamps, the same final task outcomes and the same terminal event and outputs. non-trivial = the fault hit a point where the process had an open interrupt and at least two client actions followed; distinct = distinct (scenario hash, fault point, fault kind)",
        level: "fault_enumeration",
        assumptions: &["faults are injected at quiescent points only (the statement's scope)", "a killed engine runs no destructors; only the store survives", "monotone simulated clock", "no storage errors are injected"],
        probes: &["probe.restart_sqlite", "probe.restart_mem", "probe.evict", "probe.fault_with_open_interrupt", "probe.two_faults", "probe.generated_acts", "probe.env", "probe.catch", "probe.nodes_without_id", "probe.timeout_rule_fired", "probe.sub_workflow_call"],
        quick_cases: 1000,
        no_shrink: &[],
    }
}

fn gen_scenario(rng: &mut vsim::rng::Rng) -> Scenario {
    let opts = LifeOpts {
        catches: true,
        scripted_actions: &["complete", "complete", "complete", "error", "skip", "submit", "back"],
        p_scripted: *rng.pick(&[0, 150, 300]),
        adversary: None,
        dup: false,
        generators: rng.below(3) == 0,
        hooks: false,
        outputs: true, drop_outputs: false
    };
    let mut sc = gen_lifecycle(rng, &opts);
    let m = &mut sc.models[0];
    let mut n = 0;
    fn add_writers(steps: &mut [MStep], rng: &mut vsim::rng::Rng, n: &mut u32) {
        for s in steps.iter_mut() {
            if !s.acts.is_empty() && rng.below(3) == 0 {
                *n += 1;
                let kind = match rng.below(3) {
                    0 => {
                        let mut kv = BTreeMap::new();
                        kv.insert(rng.pick(&["a", "b"]).to_string(), json!(rng.range(0, 3)));
                        ActKind::Set(kv)
                    }
                    1 => ActKind::Code(format!("$set(\"{}\", (a + b + {}) % 4);", rng.pick(&["a", "b"]), rng.range(1, 3))),
                    _ => ActKind::Code(format!("$env.e{} = {};", rng.below(2), rng.range(1, 99))),
                };
                let pos = rng.below(s.acts.len() as u64 + 1) as usize;
                s.acts.insert(pos, MAct { id: format!("w{}", n), kind, ..Default::default() });
            }
            // a reader of the env at the end of some steps
            if !s.acts.is_empty() && rng.below(4) == 0 {
                *n += 1;
                s.acts.push(MAct { id: format!("w{}", n), key: format!("renv{}", n), kind: ActKind::Msg, params: json!({"e0": "{{ $env.e0 }}", "e1": "{{ $env.e1 }}", "a": "{{ a }}", "b": "{{ b }}"}), ..Default::default() });
            }
            for b in s.branches.iter_mut() {
                add_writers(&mut b.steps, rng, n);
            }
        }
    }
    add_writers(&mut m.steps, rng, &mut n);
    m.outputs.insert("a".into(), None);
    m.outputs.insert("b".into(), None);
    if rng.below(2) == 0 {
        m.env.insert("e0".into(), json!(rng.range(1, 9)));
    }
    sc.client.mode = "sequential".into();
    sc.client.order = "canonical".into();
    sc.engine.store = if rng.below(2) == 0 { "sqlite".into() } else { "mem".into() };
    sc.engine.keep_processes = true;
    sc.capture = true;
    sc.knobs.policy = "fifo".into();
    // timeout rules on some interrupts and time that passes between the client's actions (clock jump + tick while
    // interrupts are open): what a rule has done, and what it still has to do, must survive the reload
    if rng.below(4) == 0 {
        let mut n = 0;
        fn add_rules(steps: &mut [MStep], rng: &mut vsim::rng::Rng, n: &mut u32) {
            for s in steps.iter_mut() {
                for a in s.acts.iter_mut() {
                    if matches!(a.kind, ActKind::Irq) && rng.below(2) == 0 {
                        *n += 1;
                        let on = rng.pick(&["2s", "5s", "1m"]).to_string();
                        let kind = if rng.below(2) == 0 { ActKind::Irq } else { ActKind::Msg };
                        a.timeouts.push(MTimeout { on, steps: vec![MStep { id: format!("to{}", n), acts: vec![MAct { id: format!("to{}_m", n), key: format!("timeout{}", n), kind, ..Default::default() }], ..Default::default() }] });
                    }
                }
                for b in s.branches.iter_mut() {
                    add_rules(&mut b.steps, rng, n);
                }
            }
        }
        add_rules(&mut sc.models[0].steps, rng, &mut n);
        sc.engine.tick_interval_secs = 1;
        let mut at = 0;
        for _ in 0..(2 + rng.below(4)) {
            at += rng.below(3) as u32;
            sc.time_ops.push(TimeOp { before_action: at, jump_us: *rng.pick(&[2_500_000i64, 6_000_000, 61_000_000]) });
        }
    }
    // a call of a sub-workflow somewhere along the flow: parent and child both survive the reload, the child's end
    // still returns to the calling act
    if rng.below(5) == 0 {
        let mut placed = false;
        fn place(steps: &mut [MStep], rng: &mut vsim::rng::Rng, placed: &mut bool) {
            for s in steps.iter_mut() {
                if *placed {
                    return;
                }
                if !s.acts.is_empty() && s.acts.iter().all(|a| !matches!(a.kind, ActKind::Block { .. } | ActKind::Parallel { .. } | ActKind::Sequence { .. })) && rng.below(2) == 0 {
                    let pos = rng.below(s.acts.len() as u64 + 1) as usize;
                    let mut o = BTreeMap::new();
                    o.insert("x".to_string(), json!(7));
                    s.acts.insert(pos, MAct { id: "subcall".into(), key: "subcall_key".into(), kind: ActKind::Subflow { to: "child".into(), options: o }, ..Default::default() });
                    *placed = true;
                    return;
                }
                for b in s.branches.iter_mut() {
                    place(&mut b.steps, rng, placed);
                }
            }
        }
        place(&mut sc.models[0].steps, rng, &mut placed);
        if placed {
            let mut cin = BTreeMap::new();
            cin.insert("x".to_string(), json!(0));
            let mut cout = BTreeMap::new();
            cout.insert("x".to_string(), None);
            let mut cacts = vec![MAct { id: "child_a1".into(), key: "child_k1".into(), kind: ActKind::Irq, ..Default::default() }];
            if rng.below(2) == 0 {
                cacts.push(MAct { id: "child_a2".into(), key: "child_k2".into(), kind: ActKind::Irq, ..Default::default() });
            }
            sc.models.push(MWorkflow { id: "child".into(), inputs: cin, outputs: cout, steps: vec![MStep { id: "child_s1".into(), acts: cacts, ..Default::default() }], ..Default::default() });
            // the child may also fail or be aborted
            match rng.below(4) {
                0 => {
                    let mut o = serde_json::Map::new();
                    o.insert("ecode".into(), json!("child_err"));
                    o.insert("message".into(), json!("child failed"));
                    sc.client.reactions.insert("child_k1".into(), vec![Reaction { action: "error".into(), options: o, repeat: 0 }]);
                }
                1 => {
                    sc.client.reactions.insert("child_k1".into(), vec![Reaction { action: "abort".into(), options: serde_json::Map::new(), repeat: 0 }]);
                }
                _ => {}
            }
        }
    }
    // some nodes without an id in the YAML: the engine generates one, which must survive the reload
    if rng.below(3) == 0 {
        let keep = opts.p_scripted > 0;
        anonymise(&mut sc.models[0], rng, 500, keep);
    }
    sc
}

/// canonical form of a run: phases of message multisets, action list, final outcome, terminal event
#[derive(Debug, PartialEq, Clone)]
pub struct Canon {
    pub actions: Vec<String>,
    pub phases: Vec<Vec<String>>,
    pub outcome: BTreeMap<String, Vec<String>>,
    pub terminal: Vec<String>,
}

fn strip_ids(v: &Value, ids: &BTreeSet<String>) -> Value {
    match v {
        Value::String(s) if ids.contains(s) => json!("<id>"),
        Value::Array(a) => Value::Array(a.iter().map(|x| strip_ids(x, ids)).collect()),
        Value::Object(m) => Value::Object(m.iter().map(|(k, x)| (k.clone(), strip_ids(x, ids))).collect()),
        _ => v.clone(),
    }
}

pub fn canon(rec: &RunRecord, models: &[MWorkflow]) -> Canon {
    // the node ids the models declare: every other node id was generated at run time
    let mut declared: BTreeSet<String> = BTreeSet::new();
    for m in models {
        declared.insert(m.id.clone());
        m.visit_steps(&mut |s| {
            declared.insert(s.id.clone());
            for b in &s.branches {
                declared.insert(b.id.clone());
            }
        });
        m.visit_acts(&mut |a| {
            if !a.id.is_empty() {
                declared.insert(a.id.clone());
            }
        });
    }
    // task ids and the generated pids of child processes differ from run to run
    let ids: BTreeSet<String> = rec.trans.iter().map(|t| t.tid.clone()).chain(rec.msgs.iter().map(|m| m.tid.clone())).filter(|t| t != "$").chain(rec.msgs.iter().map(|m| m.pid.clone()).filter(|p| p != "p1")).collect();
    let mut phases: Vec<Vec<String>> = vec![vec![]];
    let mut ai = 0;
    for m in rec.msgs.iter() {
        while ai < rec.actions.len() && rec.actions[ai].seq0 < m.seq {
            ai += 1;
            phases.push(vec![]);
        }
        if m.via == "message" || m.via == "start" {
            phases.last_mut().unwrap().push(format!("{} {} {} {} {} in={} out={}", m.via, m.typ, m.nid, m.key, m.state, strip_ids(&m.inputs, &ids), strip_ids(&m.outputs, &ids)));
        }
    }
    for p in phases.iter_mut() {
        p.sort();
    }
    let mut last: BTreeMap<(String, String), (String, String)> = BTreeMap::new();
    for t in &rec.trans {
        last.insert((t.pid.clone(), t.tid.clone()), (t.nid.clone(), t.new.clone()));
    }
    let mut outcome: BTreeMap<String, Vec<String>> = BTreeMap::new();
    for (_, (nid, st)) in last {
        // run-time generated block acts have generated node ids
        let nid = if declared.contains(&nid) { nid } else { "<gen>".to_string() };
        outcome.entry(nid).or_default().push(st);
    }
    for v in outcome.values_mut() {
        // an else-branch is decided lazily (when a sibling's completion is reviewed): `pending` at the
        // end of a client history that stops early and `skipped` are the same outcome
        for s in v.iter_mut() {
            if s == "pending" {
                *s = "skipped".to_string();
            }
        }
        v.sort();
    }
    let terminal: Vec<String> = rec.msgs.iter().filter(|m| m.via == "complete" || m.via == "error").map(|m| format!("{} {} out={} in={}", m.via, m.state, m.outputs, strip_ids(&m.inputs, &ids))).collect();
    Canon { actions: rec.actions.iter().map(|a| format!("{} {} -> {}", a.action, a.key, if a.ok { "ok" } else { "err" })).collect(), phases, outcome, terminal }
}

pub fn case(ctx: &mut CaseCtx) -> CaseOut {
    let base = ctx.scenario(gen_scenario);
    let mut out = CaseOut { scenario: Some(base.clone()), ..Default::default() };
    let thorough = ctx.tier == "thorough";
    let rec_a = ctx.run(&base);
    if discard_if_broken(&rec_a, &mut out) || rec_a.step_cap_hit {
        out.discarded.get_or_insert("run A hit the step cap".into());
        return out;
    }
    let ca = canon(&rec_a, &base.models);
    let q = rec_a.qpoints.len();
    let mut fr = vsim::rng::Rng::new(vsim::rng::mix(&[ctx.case_seed, 0xc12]));
    // fault points: quiescent point indexes 1..q (the point after the i-th settle)
    let mut points: Vec<usize> = (1..=q.saturating_sub(1)).collect();
    if !thorough && points.len() > 5 {
        fr.shuffle(&mut points);
        points.truncate(5);
        points.sort();
    }
    let has = |f: &dyn Fn(&MAct) -> bool| {
        let mut x = false;
        for m in &base.models {
            m.visit_acts(&mut |a| x |= f(a));
        }
        x
    };
    if has(&|a| matches!(&a.kind, ActKind::Block { .. } | ActKind::Parallel { .. } | ActKind::Sequence { .. })) {
        ctx.count("probe.generated_acts", 1);
    }
    if base.models.iter().any(|m| !m.anon.is_empty()) {
        ctx.count("probe.nodes_without_id", 1);
    }
    if has(&|a| matches!(&a.kind, ActKind::Code(s) if s.contains("$env"))) {
        ctx.count("probe.env", 1);
    }
    if rec_a.trans.iter().any(|t| t.old == "error" && t.new == "running") {
        ctx.count("probe.catch", 1);
    }
    if rec_a.msgs.iter().any(|m| m.key.starts_with("timeout")) {
        ctx.count("probe.timeout_rule_fired", 1);
    }
    if rec_a.msgs.iter().any(|m| m.key == "child_k1") {
        ctx.count("probe.sub_workflow_call", 1);
    }
    let mut plans: Vec<Vec<(usize, String)>> = vec![];
    for p in &points {
        let kind = if base.engine.store == "sqlite" { if fr.below(4) == 0 { "evict" } else { "restart" } } else { *fr.pick(&["evict", "restart"]) };
        plans.push(vec![(*p, kind.to_string())]);
    }
    if points.len() >= 2 {
        let a = points[fr.below(points.len() as u64) as usize];
        let b = points[fr.below(points.len() as u64) as usize];
        if a != b {
            plans.push(vec![(a.min(b), "restart".into()), (a.max(b), "evict".into())]);
        }
    }
    let mut nontrivial = false;
    for plan in &plans {
        let mut sc = base.clone();
        for (p, kind) in plan {
            sc.faults.push(FaultOp { at_q: *p, kind: kind.clone(), arg: 0 });
        }
        let rec_b = ctx.run(&sc);
        if plan.len() > 1 {
            ctx.count("probe.two_faults", 1);
        }
        for (p, kind) in plan {
            match (kind.as_str(), base.engine.store.as_str()) {
                ("restart", "sqlite") => ctx.count("probe.restart_sqlite", 1),
                ("restart", _) => ctx.count("probe.restart_mem", 1),
                _ => ctx.count("probe.evict", 1),
            }
            // did the fault hit a point with an open interrupt?
            if let Some(qa) = rec_a.qpoints.get(p - 1) {
                let open = qa.live.iter().any(|pr| pr.tasks.iter().any(|t| t.state == "interrupted"));
                let later_actions = rec_a.actions.iter().filter(|a| a.seq0 > qa.seq).count();
                if open {
                    ctx.count("probe.fault_with_open_interrupt", 1);
                    if later_actions >= 2 {
                        nontrivial = true;
                    }
                }
            }
        }
        let cb = canon(&rec_b, &base.models);
        let what = plan.iter().map(|(_, k)| k.clone()).collect::<Vec<_>>().join("+");
        let store = base.engine.store.clone();
        // run-time generated acts are a recorded finding (their node links are not persisted): whether
        // the model has generators is part of the signature, fault kind and store are in the detail
        let gens = {
            let mut x = false;
            for m in &base.models {
                m.visit_acts(&mut |a| x |= matches!(&a.kind, ActKind::Block { .. } | ActKind::Parallel { .. } | ActKind::Sequence { .. }));
            }
            x
        };
        let _ = (&what, &store);
        // a process that is not held by the cache is not visited by the tick: its timeout rules do not fire while it
        // is evicted (recorded finding); whether that is the situation is part of the signature
        let timed = {
            let mut x = false;
            for m in &base.models {
                m.visit_acts(&mut |a| x |= !a.timeouts.is_empty());
            }
            x && !base.time_ops.is_empty()
        };
        let timed_evicted = timed && plan.iter().any(|(_, k)| k == "evict");
        // the flag is part of the signature only when the difference itself is about the steps of timeout rules
        // (`about_rules`): any other difference in such a run is reported as usual
        let sig = |diff: &str, about_rules: bool| if timed_evicted && about_rules { json!({"differs": diff, "timed_process_evicted": true, "difference_is_about_timeout_rule_steps": true}) } else { json!({"differs": diff, "generated_acts_in_model": gens}) };
        let rule_node = |s: &str| s.starts_with("to") && s[2..].chars().next().map(|c| c.is_ascii_digit()).unwrap_or(false);
        let at = format!("{:?} on {}", plan, store);
        if !rec_b.panics.is_empty() || rec_b.step_cap_hit {
            out.violations.push(Violation::new("C12", "run_broke_after_fault", sig("panic_or_livelock", false), format!("faults {}: run B panicked or did not settle: {:?}", at, rec_b.panics)));
        } else if ca.actions != cb.actions {
            let i = ca.actions.iter().zip(cb.actions.iter()).position(|(x, y)| x != y).unwrap_or(ca.actions.len().min(cb.actions.len()));
            let d = if cb.actions.len() < ca.actions.len() && i == cb.actions.len() { "fewer_actions_possible" } else if cb.actions.get(i).map(|s| s.ends_with("err")).unwrap_or(false) { "action_rejected_after_fault" } else { "other" };
            let about = [ca.actions.get(i), cb.actions.get(i)].iter().flatten().any(|a| a.contains(" timeout"));
            out.violations.push(Violation::new("C12", "client_history_differs", sig("actions", about), format!("faults {}: the client's {}-th action differs: A `{}` / B `{}` (A has {} actions, B {})", at, i, ca.actions.get(i).cloned().unwrap_or_default(), cb.actions.get(i).cloned().unwrap_or_default(), ca.actions.len(), cb.actions.len())));
        } else if ca.phases != cb.phases {
            let i = ca.phases.iter().zip(cb.phases.iter()).position(|(x, y)| x != y).unwrap_or(ca.phases.len().min(cb.phases.len()));
            let (pa, pb) = (ca.phases.get(i).cloned().unwrap_or_default(), cb.phases.get(i).cloned().unwrap_or_default());
            let only_a: Vec<&String> = pa.iter().filter(|m| !pb.contains(m)).collect();
            let only_b: Vec<&String> = pb.iter().filter(|m| !pa.contains(m)).collect();
            let d = if only_b.is_empty() { "messages_missing" } else if only_a.is_empty() { "extra_messages" } else { "messages_changed" };
            let about = only_a.iter().chain(only_b.iter()).all(|m| m.split(' ').nth(2).map(|n| rule_node(n)).unwrap_or(false));
            out.violations.push(Violation::new("C12", "messages_differ", sig("phase_messages", about), format!("faults {}: phase {} (after action `{}`): only in A: {:?}; only in B: {:?}", at, i, ca.actions.get(i.saturating_sub(1)).cloned().unwrap_or_default(), only_a.iter().take(3).collect::<Vec<_>>(), only_b.iter().take(3).collect::<Vec<_>>())));
        } else if ca.outcome != cb.outcome {
            let diff: Vec<String> = ca.outcome.iter().filter(|(k, v)| cb.outcome.get(*k) != Some(v)).map(|(k, v)| format!("{}: {:?} vs {:?}", k, v, cb.outcome.get(k))).collect();
            let about = ca.outcome.iter().filter(|(k, v)| cb.outcome.get(*k) != Some(v)).map(|(k, _)| k).chain(cb.outcome.keys().filter(|k| !ca.outcome.contains_key(*k))).all(|k| rule_node(k));
            out.violations.push(Violation::new("C12", "task_outcomes_differ", sig("outcome", about), format!("faults {}: final task states differ: {}", at, diff.join("; "))));
        } else if ca.terminal != cb.terminal {
            out.violations.push(Violation::new("C12", "terminal_event_differs", sig("terminal", false), format!("faults {}: terminal event A {:?} / B {:?}", at, ca.terminal, cb.terminal)));
        }
        if !out.violations.is_empty() {
            // the replay file holds the base scenario: the failing plan is re-derived from the case stream
            return out;
        }
    }
    out.nontrivial = nontrivial;
    out.outcome_hash = vsim::hash_str(&format!("{:?}{:?}", ca.outcome, ca.terminal));
    out.distinct_key = Some(vsim::rng::mix(&[base.shape_hash(), vsim::hash_str(&format!("{:?}", plans))]));
    out.sample = sample_of(&base, json!({"quiescent_points_of_A": q, "fault_plans": plans, "actions": ca.actions, "terminal": ca.terminal}));
    let _ = completer_for;
    out
}
