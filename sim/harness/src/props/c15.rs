//! C15 — Sub-process call and return.
use super::common::*;
use crate::checks::*;
use crate::gen::*;
use crate::model::*;
use crate::obs::*;
use crate::scenario::*;
use serde_json::{json, Value};
use std::collections::BTreeMap;

pub fn def() -> CheckDef {
    CheckDef {
        id: "C15",
        title: "Sub-process call and return",
        case,
        rule: "case = parent / child (/ grandchild) models: the calling act sits between other acts and, in half of the cases, beside a second branch with its own open interrupt; the child ends completed / error / aborted (decided by the client's answer to the child's interrupt) or the target model is missing; seeded schedule decides how the child's return interleaves with the other activity of the parent. oracles: the calling act is open at every quiescent point before the child's terminal event and is closed exactly once afterwards with the prescribed state and data, the child's inputs equal the call's options, the successor of the calling act starts once and only after it is closed, the parent's terminal event follows the child's, a missing model fails the calling act and the process. non-trivial = a child process really started and ended (or the model was missing); distinct = distinct (scenario hash, schedule hash)",
        level: "exploration",
        assumptions: &["monotone simulated clock", "child ending `skipped` is not reachable through client actions on the child's acts and is not generated", "no storage errors are injected"],
        probes: &["probe.child_completed", "probe.child_error", "probe.child_aborted", "probe.missing_model", "probe.grandchild", "probe.parent_busy_while_child_runs", "probe.parent_event_delivered_first", "probe.child_failed_without_code", "probe.child_error_caught_by_the_call"],
        quick_cases: 5000,
        no_shrink: &[],
    }
}

fn irq(id: &str, key: &str) -> MAct {
    MAct { id: id.into(), key: key.into(), kind: ActKind::Irq, ..Default::default() }
}
fn msg(id: &str, key: &str) -> MAct {
    MAct { id: id.into(), key: key.into(), kind: ActKind::Msg, ..Default::default() }
}

fn gen_scenario(rng: &mut vsim::rng::Rng) -> Scenario {
    let mut sc = Scenario::default();
    let xval = rng.range(1, 50);
    let missing = rng.below(8) == 0;
    let depth3 = rng.below(3) == 0;
    let mut opts = BTreeMap::new();
    opts.insert("x".to_string(), json!(xval));
    let mut call = MAct { id: "call".into(), key: "callkey".into(), kind: ActKind::Subflow { to: if missing { "nomodel".into() } else { "child".into() }, options: opts }, ..Default::default() };
    // sometimes the calling act has a catch: a child that fails is then taken by it - the act fails, is revived, runs the
    // steps of the catch and completes; the parent goes on as if nothing had happened
    if rng.below(6) == 0 {
        let on = if rng.below(2) == 0 { None } else { Some("child_err".to_string()) };
        call.catches.push(MCatch { on, steps: vec![MStep { id: "call_caught".into(), acts: vec![msg("call_caught_m", "call_caught_key")], ..Default::default() }] });
    }
    let mut acts = vec![];
    if rng.below(2) == 0 {
        acts.push(irq("pa0", "pk0"));
    }
    acts.push(call);
    match rng.below(3) {
        0 => acts.push(msg("pa2", "pm2")),
        1 => acts.push(irq("pa2", "pk2")),
        _ => {}
    }
    let callstep = MStep { id: "ps1".into(), acts, ..Default::default() };
    let mut steps = vec![];
    if rng.below(2) == 0 {
        // the call sits in one branch, another branch keeps the parent busy with its own interrupt
        let busy = MStep { id: "ps_busy".into(), acts: vec![irq("pb1", "pkb1"), irq("pb2", "pkb2")], ..Default::default() };
        let mut branches = vec![
            MBranch { id: "pbr1".into(), kind: BranchKind::If(Cond::True), steps: vec![callstep] },
            MBranch { id: "pbr2".into(), kind: BranchKind::If(Cond::True), steps: vec![busy] },
        ];
        if rng.below(2) == 0 {
            branches.reverse();
        }
        steps.push(MStep { id: "ps0".into(), branches, ..Default::default() });
    } else {
        steps.push(callstep);
    }
    if rng.below(2) == 0 {
        steps.push(MStep { id: "ps_end".into(), acts: vec![msg("pa9", "pm9")], ..Default::default() });
    }
    let mut pout = BTreeMap::new();
    pout.insert("x".to_string(), None);
    sc.models.push(MWorkflow { id: "parent".into(), outputs: pout.clone(), steps, ..Default::default() });
    // child
    let mut cacts = vec![irq("ca1", "ck1")];
    if depth3 {
        let mut o = BTreeMap::new();
        o.insert("y".to_string(), json!(xval + 1));
        // sometimes the grandchild's model does not exist: the child fails by itself (an error without a code)
        let to = if rng.below(5) == 0 { "nogrand" } else { "grand" };
        cacts.push(MAct { id: "ccall".into(), key: "ccallkey".into(), kind: ActKind::Subflow { to: to.into(), options: o }, ..Default::default() });
    } else if rng.below(8) == 0 {
        // the child fails by itself: a script that throws (an error without a code)
        cacts.push(MAct { id: "cthrow".into(), kind: ActKind::Code("throw new Error(\"child script failed\");".into()), ..Default::default() });
    }
    if rng.below(2) == 0 {
        cacts.push(irq("ca2", "ck2"));
    }
    let mut cin = BTreeMap::new();
    cin.insert("x".to_string(), json!(0));
    sc.models.push(MWorkflow { id: "child".into(), inputs: cin, outputs: pout, steps: vec![MStep { id: "cs1".into(), acts: cacts, ..Default::default() }], ..Default::default() });
    if depth3 {
        let mut gin = BTreeMap::new();
        gin.insert("y".to_string(), json!(0));
        sc.models.push(MWorkflow { id: "grand".into(), inputs: gin, steps: vec![MStep { id: "gs1".into(), acts: vec![irq("ga1", "gk1")], ..Default::default() }], ..Default::default() });
    }
    // how the child ends
    let ending = *rng.pick(&["complete", "complete", "error", "abort"]);
    let key = if depth3 && rng.below(2) == 0 { "gk1" } else { *rng.pick(&["ck1", "ck1", "ck2"]) };
    let mut o = serde_json::Map::new();
    if ending == "error" {
        o.insert("ecode".into(), json!("child_err"));
        o.insert("message".into(), json!("child failed"));
    }
    if ending != "complete" {
        sc.client.reactions.insert(key.into(), vec![Reaction { action: ending.into(), options: o, repeat: 0 }]);
    }
    sc.starts.push(Start { model: "parent".into(), vars: serde_json::Map::new(), pid: Some("p1".into()), at_q: 0 });
    sc.client.mode = rng.pick(&["sequential", "sequential", "spawned", "inline"]).to_string();
    sc.client.order = rng.pick(&["fifo", "random", "random"]).to_string();
    sc.engine.keep_processes = true;
    sc.knobs = random_knobs(rng);
    sc.capture = true;
    sc
}

pub fn case(ctx: &mut CaseCtx) -> CaseOut {
    let sc = ctx.scenario(gen_scenario);
    let rec = ctx.run(&sc);
    let mut out = CaseOut { scenario: Some(sc.clone()), ..Default::default() };
    if discard_if_broken(&rec, &mut out) {
        return out;
    }
    let mut v = vec![];
    // calls: every task of a subflow act, with the child process that names it as parent
    let Some(qlast) = rec.qpoints.last() else { return out };
    let mut call_tasks: Vec<(String, String, String, String)> = vec![]; // (pid, tid, nid, target model)
    for p in &qlast.live {
        for t in p.tasks.iter().filter(|t| t.uses == "acts.core.subflow") {
            let to = find_act(&sc.models, &t.nid).and_then(|a| match a.kind {
                ActKind::Subflow { to, .. } => Some(to),
                _ => None,
            });
            call_tasks.push((p.pid.clone(), t.tid.clone(), t.nid.clone(), to.unwrap_or_default()));
        }
    }
    let term_event = |pid: &str| rec.msgs.iter().find(|m| (m.via == "complete" || m.via == "error") && m.pid == pid);
    let mut any_child = false;
    for (ppid, ptid, pnid, to) in &call_tasks {
        let model_exists = sc.models.iter().any(|m| &m.id == to);
        let child = qlast.live.iter().find(|c| c.tasks.iter().any(|t| t.tid == "$" && t.data.get("$parent_pid").and_then(|x| x.as_str()) == Some(ppid.as_str()) && t.data.get("$parent_tid").and_then(|x| x.as_str()) == Some(ptid.as_str())));
        let closes: Vec<&TransRec> = rec.trans.iter().filter(|t| &t.pid == ppid && &t.tid == ptid && is_terminal_state(&t.new) && t.old != t.new).collect();
        let depth = if ppid == "p1" { "parent" } else { "child" };
        if !model_exists {
            ctx.count("probe.missing_model", 1);
            let st: Vec<String> = closes.iter().map(|t| t.new.clone()).collect();
            // a catch-all on the calling act takes this failure as well (it has no code, a catch for a code does not)
            let catch_all = find_act(&sc.models, pnid).map(|a| a.catches.iter().any(|c| c.on.is_none())).unwrap_or(false);
            if catch_all {
                if st != vec!["error".to_string(), "completed".to_string()] {
                    v.push(Violation::new("C15", "call_with_catch_not_closed_as_caught", json!({"closes": st, "level": depth, "missing_model": true}), format!("the calling act {} names the missing model `{}` and declares a catch-all: it was closed {:?} instead of failing once and completing after its catch steps", pnid, to, st)));
                    break;
                }
                continue;
            }
            if st != vec!["error".to_string()] {
                v.push(Violation::new("C15", "missing_model_not_failed", json!({"closes": st}), format!("the calling act {} names the missing model `{}`: it was closed {:?} instead of failing once", pnid, to, st)));
                break;
            }
            if ppid == "p1" && term_event("p1").map(|m| m.via.as_str()) != Some("error") {
                v.push(Violation::new("C15", "missing_model_process_not_failed", json!({}), format!("the calling act {} names the missing model `{}` but the process did not deliver its error event", pnid, to)));
                break;
            }
            continue;
        }
        let Some(child) = child else {
            // the call was never reached (an earlier act was not completed) or the parent ended first
            continue;
        };
        any_child = true;
        if ppid != "p1" {
            ctx.count("probe.grandchild", 1);
        }
        let cend = term_event(&child.pid);
        // (1) open while the child runs
        for q in &rec.qpoints {
            let child_done_before = cend.map(|e| e.seq <= q.seq).unwrap_or(false);
            if child_done_before {
                break;
            }
            if let Some(t) = q.live.iter().find(|p| &p.pid == ppid).and_then(|p| p.tasks.iter().find(|t| &t.tid == ptid)) {
                let parent_ended = term_event(ppid).map(|e| e.seq <= q.seq).unwrap_or(false);
                if is_terminal_state(&t.state) && !parent_ended {
                    v.push(Violation::new("C15", "call_closed_before_child_ended", json!({"state": t.state, "level": depth}), format!("quiescent point {}: the calling act {} is {} although child process {} has not delivered its terminal event", q.idx, pnid, t.state, child.pid)));
                    break;
                }
                // the successor of the calling act must not run while the call is open
                if !is_terminal_state(&t.state) {
                    if let Some(succ) = q.live.iter().find(|p| &p.pid == ppid).and_then(|p| p.tasks.iter().find(|s| s.prev.as_deref() == Some(ptid.as_str()) && s.kind == "act")) {
                        v.push(Violation::new("C15", "successor_started_before_call_returned", json!({"level": depth}), format!("quiescent point {}: act {} after the calling act {} is already {} while the call is still {} (child {} running)", q.idx, succ.nid, pnid, succ.state, t.state, child.pid)));
                        break;
                    }
                    if q.live.iter().filter(|p| &p.pid == ppid).flat_map(|p| p.tasks.iter()).filter(|s| s.state == "interrupted").count() > 0 {
                        ctx.count("probe.parent_busy_while_child_runs", 1);
                    }
                }
            }
        }
        if !v.is_empty() {
            break;
        }
        // (2) closed exactly once with the prescribed state and data
        if let Some(cend) = cend {
            let want = match (cend.via.as_str(), cend.state.as_str()) {
                ("error", _) => "error",
                (_, "aborted") => "aborted",
                (_, "skipped") => "skipped",
                _ => "completed",
            };
            match want {
                "completed" => ctx.count("probe.child_completed", 1),
                "error" => {
                    ctx.count("probe.child_error", 1);
                    if cend.inputs.get("ecode").and_then(|x| x.as_str()).unwrap_or("").is_empty() {
                        ctx.count("probe.child_failed_without_code", 1);
                    }
                }
                "aborted" => ctx.count("probe.child_aborted", 1),
                _ => {}
            }
            // the parent may have ended earlier by another path (e.g. aborted): then the call is closed by that
            let parent_end = term_event(ppid);
            let parent_ended_first = parent_end.map(|e| e.seq < cend.seq).unwrap_or(false);
            let st: Vec<String> = closes.iter().map(|t| t.new.clone()).collect();
            // a catch on the calling act that matches the child's error: fails, is revived, completes after its steps
            let child_code = cend.inputs.get("ecode").and_then(|x| x.as_str()).unwrap_or("").to_string();
            let caught = want == "error" && find_act(&sc.models, pnid).map(|a| a.catches.iter().any(|c| c.on.is_none() || c.on.as_deref() == Some(child_code.as_str()))).unwrap_or(false);
            if caught && !parent_ended_first {
                ctx.count("probe.child_error_caught_by_the_call", 1);
                if st != vec!["error".to_string(), "completed".to_string()] {
                    v.push(Violation::new("C15", "call_with_catch_not_closed_as_caught", json!({"closes": st, "level": depth}), format!("child process {} failed with `{}` and the calling act {} declares a matching catch: the act was closed {:?} instead of failing once and completing after its catch steps", child.pid, child_code, pnid, st)));
                    break;
                }
                let ran = rec.trans.iter().filter(|t| t.nid == "call_caught" && t.new == "completed").count();
                if ran != 1 {
                    v.push(Violation::new("C15", "call_catch_steps_not_run_once", json!({"runs": ran, "level": depth}), format!("the catch of the calling act {} took the child's error: its step ran {} times", pnid, ran)));
                    break;
                }
            } else if !parent_ended_first {
                if st.len() != 1 || st[0] != want {
                    v.push(Violation::new("C15", "call_not_closed_once_with_child_state", json!({"child": want, "closes": st, "level": depth}), format!("child process {} ended {} ({}): the calling act {} was closed {:?} instead of exactly once as {}", child.pid, cend.state, cend.via, pnid, st, want)));
                    break;
                }
                let t = qlast.live.iter().find(|p| &p.pid == ppid).and_then(|p| p.tasks.iter().find(|t| &t.tid == ptid));
                if let Some(t) = t {
                    if want == "completed" {
                        // the child's declared outputs arrive in the calling act
                        for (k, val) in cend.outputs.as_object().cloned().unwrap_or_default() {
                            if k == "data" {
                                continue;
                            }
                            if t.data.get(&k) != Some(&val) {
                                v.push(Violation::new("C15", "child_outputs_not_returned", json!({"key": k, "level": depth}), format!("child {} completed with outputs {}: the calling act {} holds {}={:?}", child.pid, cend.outputs, pnid, k, t.data.get(&k))));
                                break;
                            }
                        }
                    }
                    if want == "error" {
                        let ec = t.err.as_ref().and_then(|e| e.get("ecode")).and_then(|x| x.as_str()).unwrap_or("<none>");
                        let ms = t.err.as_ref().and_then(|e| e.get("message")).and_then(|x| x.as_str()).unwrap_or("<none>");
                        let cec = cend.inputs.get("ecode").and_then(|x| x.as_str()).unwrap_or("<none>");
                        let cms = cend.inputs.get("message").and_then(|x| x.as_str()).unwrap_or("<none>");
                        if ec != cec || ms != cms {
                            v.push(Violation::new("C15", "child_error_not_returned", json!({"level": depth}), format!("child {} failed with ({}, {}): the calling act {} carries ({}, {})", child.pid, cec, cms, pnid, ec, ms)));
                        }
                    }
                }
                if !v.is_empty() {
                    break;
                }
                // successor: exactly one instance, created after the call was closed
                if want == "completed" {
                    if let Some(p) = qlast.live.iter().find(|p| &p.pid == ppid) {
                        let succ: Vec<&TaskImg> = p.tasks.iter().filter(|s| s.prev.as_deref() == Some(ptid.as_str()) && s.kind == "act").collect();
                        if succ.len() > 1 {
                            v.push(Violation::new("C15", "successor_started_twice", json!({"level": depth}), format!("the act after the calling act {} has {} instances: {:?}", pnid, succ.len(), succ.iter().map(|s| format!("{} {}", s.nid, s.state)).collect::<Vec<_>>())));
                            break;
                        }
                    }
                }
            }
            // (4) the parent's terminal event never precedes the child's
            if let Some(pe) = parent_end {
                // both events are dispatched by independently scheduled tasks: their delivery order is a
                // scheduler decision, so the order in which they were generated is what is compared
                if let (Some(pg), Some(cg)) = (pe.gen, cend.gen) {
                    if pg < cg && pe.state == "completed" {
                        v.push(Violation::new("C15", "parent_event_before_child_event", json!({"level": depth}), format!("process {} generated its terminal event (#{}) before its child {} (#{})", ppid, pg, child.pid, cg)));
                        break;
                    }
                }
                if pe.seq < cend.seq {
                    ctx.count("probe.parent_event_delivered_first", 1);
                }
            }
        } else if !rec.step_cap_hit {
            // the child never ended: only legal if one of its interrupts was left unanswered
        }
        // (3) the child starts with exactly the inputs of the call
        if let Some(a) = find_act(&sc.models, pnid) {
            if let ActKind::Subflow { options, .. } = &a.kind {
                if let Some(st) = rec.msgs.iter().find(|m| m.via == "start" && m.pid == child.pid) {
                    for (k, val) in options {
                        if st.inputs.get(k) != Some(val) {
                            v.push(Violation::new("C15", "child_inputs_differ", json!({"key": k, "level": depth}), format!("the call {} passes {}={} but child {} started with inputs {}", pnid, k, val, child.pid, st.inputs)));
                            break;
                        }
                    }
                }
            }
        }
        if !v.is_empty() {
            break;
        }
    }
    let _ = Value::Null;
    out.violations = v;
    out.nontrivial = any_child || call_tasks.iter().any(|c| !sc.models.iter().any(|m| m.id == c.3));
    out.outcome_hash = outcome_hash(&rec);
    out.sample = basic_sample(&sc, &rec, json!({"calls": call_tasks.iter().map(|c| format!("{}:{} -> {}", c.0, c.2, c.3)).collect::<Vec<_>>()}));
    out
}
