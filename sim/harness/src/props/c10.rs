//! C10 — Store contract: faithful records and one query semantics on every backend.
//! Seeded operation histories against RefCollection, with the one fault that applies to a store:
//! close and reopen of the SQLite database between operations.
use crate::checks::*;
use crate::scenario::*;
use acts::query::{Cond, Expr, Query};
use acts::{data, DbCollection};
use serde::{de::DeserializeOwned, Serialize};
use serde_json::{json, Map, Value};
use std::collections::BTreeMap;
use std::sync::{Arc, Mutex};
use vsim::rng::Rng;

pub fn def() -> CheckDef {
    CheckDef {
        id: "C10",
        title: "Store contract: faithful records and one query semantics on every backend",
        case,
        rule: "case = one collection (of the six) x one backend (in-memory, SQLite) x a seeded history of 12..30 operations: create (all fields distinct and adversarial: unicode, quotes, empty strings, NULLs, large and negative numbers), find / exists (present and absent ids), update (every field replaced), delete, a second create of an existing id, update / delete of an id that was never created or is already deleted (reference: a keyed collection - refused resp. `false`, nothing created or changed), query (1..2 AND/OR groups of EQ/NE/LT/LE/GT/GE expressions incl. sub-conditions that match nothing and NULL tests, numeric and text order keys asc/desc, offset/limit windows), and for SQLite close+reopen of the database file between operations (restart of the engine on the same file). Every answer is compared with RefCollection (a BTreeMap with a direct evaluator). non-trivial = the history contains a query with a filter and a record was updated or deleted before it; distinct = distinct history hashes",
        level: "exploration",
        assumptions: &["operations whose meaning the statement leaves open are not generated: range operators on text, paging without a total order", "text order is byte order of the UTF-8 string", "no storage errors are injected (only close/reopen)"],
        probes: &["probe.sqlite", "probe.mem", "probe.reopen", "probe.query_or", "probe.query_empty_subcondition", "probe.query_null", "probe.order_numeric", "probe.order_text", "probe.paged", "probe.update", "probe.delete", "probe.duplicate_create", "probe.update_absent", "probe.delete_absent"],
        quick_cases: 6000,
        no_shrink: &["models", "starts", "engine", "faults"],
    }
}

#[derive(Clone, Debug)]
enum FK {
    Text,
    NText,
    Num,
    Num32,
    Enum(Vec<Value>),
    Bool,
}

fn schema(col: &str) -> Vec<(&'static str, FK)> {
    let run_as: Vec<Value> = vec![json!(acts::ActRunAs::Func), json!(acts::ActRunAs::Irq), json!(acts::ActRunAs::Msg)];
    let catalog: Vec<Value> = vec![json!(acts::ActPackageCatalog::Core), json!(acts::ActPackageCatalog::Event), json!(acts::ActPackageCatalog::Transform)];
    let mstate: Vec<Value> = ["created", "completed", "submitted", "backed", "cancelled", "aborted", "skipped", "error", "removed"].iter().map(|s| json!(s)).collect();
    match col {
        "procs" => vec![("state", FK::Text), ("mid", FK::Text), ("name", FK::Text), ("start_time", FK::Num), ("end_time", FK::Num), ("timestamp", FK::Num), ("model", FK::Text), ("env", FK::Text), ("err", FK::NText)],
        "tasks" => vec![("pid", FK::Text), ("tid", FK::Text), ("node_data", FK::Text), ("kind", FK::Text), ("prev", FK::NText), ("name", FK::Text), ("state", FK::Text), ("data", FK::Text), ("err", FK::NText), ("start_time", FK::Num), ("end_time", FK::Num), ("hooks", FK::Text), ("timestamp", FK::Num)],
        "messages" => vec![
            ("tid", FK::Text), ("name", FK::Text), ("state", FK::Enum(mstate)), ("type", FK::Text), ("model", FK::Text), ("pid", FK::Text), ("nid", FK::Text), ("mid", FK::Text), ("key", FK::Text), ("uses", FK::Text),
            ("inputs", FK::Text), ("outputs", FK::Text), ("tag", FK::Text), ("start_time", FK::Num), ("end_time", FK::Num), ("chan_id", FK::Text), ("chan_pattern", FK::Text), ("create_time", FK::Num), ("update_time", FK::Num),
            ("retry_times", FK::Num32), ("status", FK::Enum(vec![json!(0), json!(1), json!(2), json!(3)])), ("timestamp", FK::Num),
        ],
        "models" => vec![("name", FK::Text), ("ver", FK::Num32), ("size", FK::Num32), ("create_time", FK::Num), ("update_time", FK::Num), ("data", FK::Text), ("timestamp", FK::Num)],
        "events" => vec![("name", FK::Text), ("mid", FK::Text), ("ver", FK::Num32), ("uses", FK::Text), ("params", FK::Text), ("create_time", FK::Num), ("timestamp", FK::Num)],
        "packages" => vec![("desc", FK::Text), ("icon", FK::Text), ("doc", FK::Text), ("version", FK::Text), ("schema", FK::Text), ("run_as", FK::Enum(run_as)), ("resources", FK::Text), ("catalog", FK::Enum(catalog)), ("built_in", FK::Bool), ("create_time", FK::Num), ("update_time", FK::Num), ("timestamp", FK::Num)],
        _ => vec![],
    }
}

const TEXTS: [&str; 14] = ["", "a", "abc", "ABC", "it's", "say \"hi\"", "ünïcödé", "日本語", "a b", "%like_", "null", "0", "-1", "line\nbreak"];

fn text(rng: &mut Rng, uniq: &mut u64) -> String {
    *uniq += 1;
    match rng.below(4) {
        0 => TEXTS[rng.below(TEXTS.len() as u64) as usize].to_string(),
        _ => format!("{}{}", TEXTS[rng.below(TEXTS.len() as u64) as usize], uniq),
    }
}

fn num(rng: &mut Rng) -> i64 {
    match rng.below(8) {
        0 => 0,
        1 => -1,
        2 => 9,
        3 => 10,
        4 => 100,
        5 => 1_700_000_000_000 + rng.range(0, 1000),
        6 => -(rng.range(1, 1_000_000_000_000)),
        _ => rng.range(0, 120),
    }
}

fn record(rng: &mut Rng, col: &str, id: &str, uniq: &mut u64) -> Value {
    let mut m = Map::new();
    m.insert("id".into(), json!(id));
    for (k, fk) in schema(col) {
        let v = match fk {
            FK::Text => json!(text(rng, uniq)),
            FK::NText => {
                if rng.below(3) == 0 {
                    Value::Null
                } else {
                    json!(text(rng, uniq))
                }
            }
            FK::Num => json!(num(rng)),
            FK::Num32 => json!(num(rng).clamp(-2_000_000_000, 2_000_000_000)),
            FK::Enum(vs) => vs[rng.below(vs.len() as u64) as usize].clone(),
            FK::Bool => json!(rng.below(2) == 0),
        };
        m.insert(k.to_string(), v);
    }
    // tasks: the id is pid:tid
    Value::Object(m)
}

#[derive(Clone, Debug)]
struct QSpec {
    groups: Vec<(bool, Vec<(String, String, Value)>)>, // (is_or, [(key, op, value)])
    order: Vec<(String, bool)>,
    offset: usize,
    limit: usize,
}

fn to_query(q: &QSpec) -> Query {
    let mut out = Query::new();
    for (is_or, exprs) in &q.groups {
        let mut c = if *is_or { Cond::or() } else { Cond::and() };
        for (k, op, v) in exprs {
            let e = match op.as_str() {
                "eq" => Expr::eq(k, v),
                "ne" => Expr::ne(k, v),
                "lt" => Expr::lt(k, v),
                "le" => Expr::le(k, v),
                "gt" => Expr::gt(k, v),
                _ => Expr::ge(k, v),
            };
            c = c.push(e);
        }
        out = out.push(c);
    }
    out.set_order(&q.order).set_offset(q.offset).set_limit(q.limit)
}

fn holds(rec: &Value, k: &str, op: &str, v: &Value) -> bool {
    let l = rec.get(k).cloned().unwrap_or(Value::Null);
    match op {
        "eq" => &l == v,
        // a record without a value is not equal to a value
        "ne" => &l != v,
        _ => match (l.as_i64(), v.as_i64()) {
            (Some(a), Some(b)) => match op {
                "lt" => a < b,
                "le" => a <= b,
                "gt" => a > b,
                _ => a >= b,
            },
            _ => false,
        },
    }
}

fn cmp_vals(a: &Value, b: &Value) -> std::cmp::Ordering {
    match (a, b) {
        (Value::Number(x), Value::Number(y)) => x.as_i64().unwrap_or(0).cmp(&y.as_i64().unwrap_or(0)),
        (Value::String(x), Value::String(y)) => x.as_bytes().cmp(y.as_bytes()),
        (Value::Bool(x), Value::Bool(y)) => x.cmp(y),
        _ => std::cmp::Ordering::Equal,
    }
}

fn ref_query(db: &BTreeMap<String, Value>, q: &QSpec) -> (Vec<Value>, usize) {
    let mut rows: Vec<Value> = db
        .values()
        .filter(|r| {
            q.groups.iter().all(|(is_or, exprs)| {
                if exprs.is_empty() {
                    true
                } else if *is_or {
                    exprs.iter().any(|(k, op, v)| holds(r, k, op, v))
                } else {
                    exprs.iter().all(|(k, op, v)| holds(r, k, op, v))
                }
            })
        })
        .cloned()
        .collect();
    if !q.order.is_empty() {
        rows.sort_by(|a, b| {
            let mut o = std::cmp::Ordering::Equal;
            for (k, rev) in &q.order {
                let c = cmp_vals(a.get(k).unwrap_or(&Value::Null), b.get(k).unwrap_or(&Value::Null));
                o = o.then(if *rev { c.reverse() } else { c });
            }
            o
        });
    }
    let count = rows.len();
    (rows.into_iter().skip(q.offset).take(q.limit).collect(), count)
}

type QOut = (Vec<Value>, usize, usize, usize, usize);
struct Ops {
    create: Box<dyn Fn(&Value) -> Result<bool, String> + Send>,
    update: Box<dyn Fn(&Value) -> Result<bool, String> + Send>,
    find: Box<dyn Fn(&str) -> Result<Value, String> + Send>,
    exists: Box<dyn Fn(&str) -> Result<bool, String> + Send>,
    delete: Box<dyn Fn(&str) -> Result<bool, String> + Send>,
    query: Box<dyn Fn(&Query) -> Result<QOut, String> + Send>,
}

fn ops_for<T: Serialize + DeserializeOwned + 'static>(col: Arc<dyn DbCollection<Item = T>>) -> Ops {
    let (c1, c2, c3, c4, c5, c6) = (col.clone(), col.clone(), col.clone(), col.clone(), col.clone(), col);
    Ops {
        create: Box::new(move |v| {
            let r: T = serde_json::from_value(v.clone()).map_err(|e| format!("harness: {e}"))?;
            c1.create(&r).map_err(|e| e.to_string())
        }),
        update: Box::new(move |v| {
            let r: T = serde_json::from_value(v.clone()).map_err(|e| format!("harness: {e}"))?;
            c2.update(&r).map_err(|e| e.to_string())
        }),
        find: Box::new(move |id| c3.find(id).map(|r| serde_json::to_value(r).unwrap()).map_err(|e| e.to_string())),
        exists: Box::new(move |id| c4.exists(id).map_err(|e| e.to_string())),
        delete: Box::new(move |id| c5.delete(id).map_err(|e| e.to_string())),
        query: Box::new(move |q| c6.query(q).map(|p| (p.rows.into_iter().map(|r| serde_json::to_value(r).unwrap()).collect(), p.count, p.page_count, p.page_num, p.page_size)).map_err(|e| e.to_string())),
    }
}

fn ops_of(cols: &acts::verif::Collections, col: &str) -> Ops {
    match col {
        "procs" => ops_for::<data::Proc>(cols.procs.clone()),
        "tasks" => ops_for::<data::Task>(cols.tasks.clone()),
        "messages" => ops_for::<data::Message>(cols.messages.clone()),
        "models" => ops_for::<data::Model>(cols.models.clone()),
        "events" => ops_for::<data::Event>(cols.events.clone()),
        _ => ops_for::<data::Package>(cols.packages.clone()),
    }
}

fn first_diff(a: &Value, b: &Value) -> Option<String> {
    let (Some(x), Some(y)) = (a.as_object(), b.as_object()) else { return Some("<shape>".into()) };
    for (k, v) in x {
        if y.get(k) != Some(v) {
            return Some(k.clone());
        }
    }
    for k in y.keys() {
        if !x.contains_key(k) {
            return Some(k.clone());
        }
    }
    None
}

pub fn case(ctx: &mut CaseCtx) -> CaseOut {
    let mut gr = Rng::new(vsim::rng::mix(&[ctx.case_seed, 0xc10]));
    let col = *gr.pick(&["procs", "tasks", "messages", "models", "events", "packages"]);
    let sqlite = gr.below(2) == 0;
    let sc = ctx.scenario(|_| {
        let mut sc = Scenario::default();
        sc.engine.store = if sqlite { "sqlite".into() } else { "mem".into() };
        sc.engine.keep_processes = true;
        sc.knobs.policy = "fifo".into();
        sc
    });
    let backend = sc.engine.store.clone();
    let sqlite = backend == "sqlite";
    ctx.count(if sqlite { "probe.sqlite" } else { "probe.mem" }, 1);
    let seed = gr.next_u64();
    let result: Arc<Mutex<(Vec<Violation>, Vec<String>, BTreeMap<String, u64>, bool)>> = Arc::new(Mutex::new((vec![], vec![], BTreeMap::new(), false)));
    let res2 = result.clone();
    let colname = col.to_string();
    let _rec = ctx.run_with(&sc, move |w| {
        let mut rng = Rng::new(seed);
        let mut uniq = 0u64;
        let mut db: BTreeMap<String, Value> = BTreeMap::new();
        let mut log: Vec<String> = vec![];
        let mut probes: BTreeMap<String, u64> = BTreeMap::new();
        let mut violations: Vec<Violation> = vec![];
        let mut mutated = false;
        let mut nontrivial = false;
        // built-in packages are published at start: work on fresh ids only and filter them out by id prefix
        let nops = 12 + rng.below(19);
        let fields = schema(&colname);
        let mut next_id = 0u64;
        let mut deleted: Vec<String> = vec![];
        // a second stream for the operations on absent / duplicate ids, so that the histories drawn from the
        // first stream (and the witnesses recorded with them) stay what they were
        let mut rng2 = Rng::new(vsim::rng::mix(&[seed, 0xab5e]));
        let mut uniq2 = 1u64 << 40;
        let viol = |kind: &str, op: &str, field: &str, detail: String| Violation::new("C10", kind, json!({"collection": colname, "backend": backend, "op": op, "field": field}), detail);
        'steps: for step in 0..nops {
            let cols = w.backing.clone().unwrap();
            let ops = ops_of(&cols, &colname);
            if !db.is_empty() && rng2.below(100) < 9 {
                // operations on ids that are not (or no longer, or already) there: "the two backends return the
                // same answers for any sequence of operations".  Reference = a keyed collection: a second create
                // of an id is refused and changes nothing, update/delete of an absent id answer `false` and
                // create nothing
                let gone: Vec<String> = deleted.iter().filter(|d| !db.contains_key(*d)).cloned().collect();
                let absent = if !gone.is_empty() && rng2.below(2) == 0 { gone[rng2.below(gone.len() as u64) as usize].clone() } else if colname == "tasks" { format!("zp9:t9{}", rng2.below(50)) } else { format!("z9{:02}", rng2.below(50)) };
                mutated = true;
                match rng2.below(3) {
                    0 => {
                        let id = db.keys().nth(rng2.below(db.len() as u64) as usize).cloned().unwrap();
                        let mut r = record(&mut rng2, &colname, &id, &mut uniq2);
                        if colname == "tasks" {
                            let parts: Vec<&str> = id.split(':').collect();
                            r["pid"] = json!(parts[0]);
                            r["tid"] = json!(parts[1]);
                        }
                        log.push(format!("create-again {}", r));
                        *probes.entry("probe.duplicate_create".into()).or_default() += 1;
                        let res = (ops.create)(&r);
                        if res.is_ok() {
                            violations.push(viol("duplicate_create_accepted", "create", "", format!("step {}: create of the existing id {} answered {:?} (a keyed collection refuses it; the SQLite backend does)", step, id, res)));
                            break 'steps;
                        }
                        match (ops.find)(&id) {
                            Ok(got) => {
                                if let Some(f) = first_diff(&db[&id], &got) {
                                    violations.push(viol("record_not_faithful", "refused create+find", &f, format!("step {}: a refused create changed {}: {} (field {})", step, id, got, f)));
                                    break 'steps;
                                }
                            }
                            Err(e) => {
                                violations.push(viol("find_failed", "refused create+find", "", format!("step {}: find after a refused create failed: {}", step, e)));
                                break 'steps;
                            }
                        }
                    }
                    1 => {
                        let mut r = record(&mut rng2, &colname, &absent, &mut uniq2);
                        if colname == "tasks" {
                            let parts: Vec<&str> = absent.split(':').collect();
                            r["pid"] = json!(parts[0]);
                            r["tid"] = json!(parts[1]);
                        }
                        log.push(format!("update-absent {}", r));
                        *probes.entry("probe.update_absent".into()).or_default() += 1;
                        let res = (ops.update)(&r);
                        if (ops.find)(&absent).is_ok() || (ops.exists)(&absent) != Ok(false) {
                            violations.push(viol("update_created_record", "update", "", format!("step {}: update of the absent id {} created a record", step, absent)));
                            break 'steps;
                        }
                        if res != Ok(false) {
                            violations.push(viol("absent_id_answer", "update", "", format!("step {}: update of the absent id {} answered {:?} (nothing was updated: false)", step, absent, res)));
                            break 'steps;
                        }
                    }
                    _ => {
                        log.push(format!("delete-absent {}", absent));
                        *probes.entry("probe.delete_absent".into()).or_default() += 1;
                        let res = (ops.delete)(&absent);
                        if res != Ok(false) {
                            violations.push(viol("absent_id_answer", "delete", "", format!("step {}: delete of the absent id {} answered {:?} (nothing was deleted: false)", step, absent, res)));
                            break 'steps;
                        }
                    }
                }
            }
            let choice = rng.below(100);
            if sqlite && choice < 7 {
                // close and reopen the database file (a new engine on the same file)
                w.restart();
                *probes.entry("probe.reopen".into()).or_default() += 1;
                log.push("reopen".into());
                continue;
            }
            if choice < 35 || db.len() < 2 {
                next_id += 1;
                let id = if colname == "tasks" { format!("zp{}:t{}", next_id % 3, next_id) } else { format!("z{:03}", next_id) };
                let mut r = record(&mut rng, &colname, &id, &mut uniq);
                if colname == "tasks" {
                    let parts: Vec<&str> = id.split(':').collect();
                    r["pid"] = json!(parts[0]);
                    r["tid"] = json!(parts[1]);
                }
                log.push(format!("create {}", r));
                match (ops.create)(&r) {
                    Ok(_) => {
                        db.insert(id.clone(), r.clone());
                    }
                    Err(e) => {
                        violations.push(viol("create_failed", "create", "", format!("step {}: create of a fresh record failed: {} :: {}", step, e, r)));
                        break;
                    }
                }
                // create followed by find returns an equal record
                match (ops.find)(&id) {
                    Ok(got) => {
                        if let Some(f) = first_diff(&r, &got) {
                            violations.push(viol("record_not_faithful", "create+find", &f, format!("step {}: created {} but find returned {} (field {})", step, r, got, f)));
                            break;
                        }
                    }
                    Err(e) => {
                        violations.push(viol("find_failed", "create+find", "", format!("step {}: find after create failed: {}", step, e)));
                        break;
                    }
                }
            } else if choice < 45 {
                let present = rng.below(3) != 0;
                let id = if present { db.keys().nth(rng.below(db.len() as u64) as usize).cloned().unwrap() } else { "absent_id".to_string() };
                let f = (ops.find)(&id);
                let e = (ops.exists)(&id);
                log.push(format!("find/exists {}", id));
                if present {
                    match f {
                        Ok(got) => {
                            if let Some(fd) = first_diff(&db[&id], &got) {
                                violations.push(viol("record_not_faithful", "find", &fd, format!("step {}: find({}) returned {} but the collection holds {} (field {})", step, id, got, db[&id], fd)));
                                break;
                            }
                        }
                        Err(err) => {
                            violations.push(viol("find_failed", "find", "", format!("step {}: find({}) failed: {}", step, id, err)));
                            break;
                        }
                    }
                    if e != Ok(true) {
                        violations.push(viol("exists_wrong", "exists", "", format!("step {}: exists({}) = {:?} for a present record", step, id, e)));
                        break;
                    }
                } else {
                    if f.is_ok() {
                        violations.push(viol("found_absent_record", "find", "", format!("step {}: find(absent_id) returned {:?}", step, f)));
                        break;
                    }
                    if e != Ok(false) {
                        violations.push(viol("exists_wrong", "exists", "", format!("step {}: exists(absent_id) = {:?}", step, e)));
                        break;
                    }
                }
            } else if choice < 58 {
                let id = db.keys().nth(rng.below(db.len() as u64) as usize).cloned().unwrap();
                let mut r = record(&mut rng, &colname, &id, &mut uniq);
                if colname == "tasks" {
                    let parts: Vec<&str> = id.split(':').collect();
                    r["pid"] = json!(parts[0]);
                    r["tid"] = json!(parts[1]);
                }
                log.push(format!("update {}", r));
                *probes.entry("probe.update".into()).or_default() += 1;
                mutated = true;
                match (ops.update)(&r) {
                    Err(e) => {
                        violations.push(viol("update_failed", "update", "", format!("step {}: update failed: {}", step, e)));
                        break;
                    }
                    Ok(false) => {
                        violations.push(viol("present_id_answer", "update", "", format!("step {}: update of the present id {} answered false", step, id)));
                        break;
                    }
                    Ok(true) => {}
                }
                db.insert(id.clone(), r.clone());
                match (ops.find)(&id) {
                    Ok(got) => {
                        if let Some(f) = first_diff(&r, &got) {
                            violations.push(viol("record_not_faithful", "update+find", &f, format!("step {}: updated to {} but find returned {} (field {})", step, r, got, f)));
                            break;
                        }
                    }
                    Err(e) => {
                        violations.push(viol("find_failed", "update+find", "", format!("step {}: find after update failed: {}", step, e)));
                        break;
                    }
                }
            } else if choice < 66 {
                let id = db.keys().nth(rng.below(db.len() as u64) as usize).cloned().unwrap();
                log.push(format!("delete {}", id));
                *probes.entry("probe.delete".into()).or_default() += 1;
                mutated = true;
                match (ops.delete)(&id) {
                    Err(e) => {
                        violations.push(viol("delete_failed", "delete", "", format!("step {}: delete failed: {}", step, e)));
                        break;
                    }
                    Ok(false) => {
                        violations.push(viol("present_id_answer", "delete", "", format!("step {}: delete of the present id {} answered false", step, id)));
                        break;
                    }
                    Ok(true) => {}
                }
                db.remove(&id);
                deleted.push(id.clone());
                if (ops.find)(&id).is_ok() || (ops.exists)(&id) != Ok(false) {
                    violations.push(viol("deleted_record_still_there", "delete", "", format!("step {}: {} is still found after delete", step, id)));
                    break;
                }
            } else {
                // query: always restricted to this history's records (id >= "z") so that rows the engine
                // itself wrote (built-in packages) stay out
                let mut groups: Vec<(bool, Vec<(String, String, Value)>)> = vec![(false, vec![("id".to_string(), "ne".to_string(), json!("no-such-id"))])];
                let ng = rng.below(3);
                let numeric: Vec<&str> = fields.iter().filter(|(_, k)| matches!(k, FK::Num | FK::Num32)).map(|(n, _)| *n).collect();
                let texty: Vec<&str> = fields.iter().filter(|(_, k)| matches!(k, FK::Text | FK::NText | FK::Enum(_))).map(|(n, _)| *n).collect();
                let nullable: Vec<&str> = fields.iter().filter(|(_, k)| matches!(k, FK::NText)).map(|(n, _)| *n).collect();
                for _ in 0..ng {
                    let is_or = rng.below(2) == 0;
                    if is_or {
                        *probes.entry("probe.query_or".into()).or_default() += 1;
                    }
                    let ne = 1 + rng.below(3);
                    let mut exprs = vec![];
                    for _ in 0..ne {
                        let sample = db.values().nth(rng.below(db.len() as u64) as usize).cloned().unwrap();
                        match rng.below(6) {
                            0 if !numeric.is_empty() => {
                                let k = numeric[rng.below(numeric.len() as u64) as usize];
                                let op = *rng.pick(&["lt", "le", "gt", "ge", "eq", "ne"]);
                                let v = if rng.below(2) == 0 { sample[k].clone() } else { json!(num(&mut rng)) };
                                exprs.push((k.to_string(), op.to_string(), v));
                            }
                            1 if !nullable.is_empty() => {
                                let k = nullable[rng.below(nullable.len() as u64) as usize];
                                *probes.entry("probe.query_null".into()).or_default() += 1;
                                exprs.push((k.to_string(), rng.pick(&["eq", "ne"]).to_string(), Value::Null));
                            }
                            2 => {
                                // a sub-condition that matches nothing
                                *probes.entry("probe.query_empty_subcondition".into()).or_default() += 1;
                                exprs.push(("id".to_string(), "eq".to_string(), json!("matches-nothing")));
                            }
                            _ => {
                                let k = texty[rng.below(texty.len() as u64) as usize];
                                let v = sample[k].clone();
                                if v.is_null() {
                                    exprs.push((k.to_string(), "eq".to_string(), Value::Null));
                                } else {
                                    exprs.push((k.to_string(), rng.pick(&["eq", "eq", "ne"]).to_string(), v));
                                }
                            }
                        }
                    }
                    groups.push((is_or, exprs));
                }
                // restrict to this history's ids: id >= "z" cannot be expressed (text range), use the pid/model
                // free formulation: ids of other rows never start with 'z'; filter them out on both sides instead
                let mut order: Vec<(String, bool)> = vec![];
                let paged = rng.below(2) == 0;
                if paged || rng.below(2) == 0 {
                    if rng.below(2) == 0 && !numeric.is_empty() {
                        order.push((numeric[rng.below(numeric.len() as u64) as usize].to_string(), rng.below(2) == 0));
                        *probes.entry("probe.order_numeric".into()).or_default() += 1;
                    } else if rng.below(2) == 0 {
                        let k = texty[rng.below(texty.len() as u64) as usize];
                        if !nullable.contains(&k) {
                            order.push((k.to_string(), rng.below(2) == 0));
                            *probes.entry("probe.order_text".into()).or_default() += 1;
                        }
                    }
                    order.push(("id".to_string(), rng.below(2) == 0));
                }
                let foreign = colname == "packages";
                let (offset, limit) = if paged && !foreign { (rng.below(4) as usize, 1 + rng.below(5) as usize) } else { (0, 100000) };
                if paged && !foreign {
                    *probes.entry("probe.paged".into()).or_default() += 1;
                }
                let q = QSpec { groups, order, offset, limit };
                log.push(format!("query {:?}", q));
                if q.groups.len() > 1 && mutated {
                    nontrivial = true;
                }
                let (want_rows, want_count) = ref_query(&db, &q);
                match (ops.query)(&to_query(&q)) {
                    Ok((rows, count, page_count, page_num, page_size)) => {
                        // rows written by the engine itself (built-in packages) are not part of the history
                        let rows: Vec<Value> = rows.into_iter().filter(|r| r["id"].as_str().map(|s| s.starts_with('z')).unwrap_or(false)).collect();
                        let ids = |v: &Vec<Value>| v.iter().map(|r| r["id"].as_str().unwrap_or("").to_string()).collect::<Vec<_>>();
                        let ordered = !q.order.is_empty();
                        let (mut a, mut b) = (ids(&rows), ids(&want_rows));
                        if !ordered {
                            a.sort();
                            b.sort();
                        }
                        let shape = format!("{}{}", if q.groups.iter().any(|g| g.0) { "or" } else { "and" }, if q.groups.iter().any(|g| g.1.iter().any(|e| e.2 == json!("matches-nothing"))) { "+empty_subcondition" } else { "" });
                        if a != b {
                            let what = if { let mut x = a.clone(); x.sort(); let mut y = b.clone(); y.sort(); x == y } { "row_order" } else { "row_set" };
                            let okey = q.order.first().map(|o| o.0.clone()).unwrap_or_default();
                            let okind = fields.iter().find(|f| f.0 == okey).map(|f| match f.1 { FK::Num | FK::Num32 => "numeric", _ => "text" }).unwrap_or("id");
                            violations.push(Violation::new("C10", "query_result_differs", json!({"backend": backend, "what": what, "filter": if what == "row_set" && q.order.is_empty() { shape.as_str() } else { "" }, "order_key": okind}), format!("step {}: query {:?} returned ids {:?}, the reference returns {:?}", step, q, a, b)));
                            break;
                        }
                        for (g, wnt) in rows.iter().zip(want_rows.iter()) {
                            if ordered {
                                if let Some(f) = first_diff(wnt, g) {
                                    violations.push(viol("record_not_faithful", "query", &f, format!("step {}: query returned {} but the collection holds {} (field {})", step, g, wnt, f)));
                                    break;
                                }
                            }
                        }
                        if !violations.is_empty() {
                            break;
                        }
                        if !foreign {
                            let want_pc = want_count.div_ceil(q.limit);
                            let want_pn = q.offset / q.limit + 1;
                            if count != want_count || page_count != want_pc || page_num != want_pn || page_size != q.limit {
                                violations.push(Violation::new("C10", "page_info_differs", json!({"collection": colname, "backend": backend, "count_ok": count == want_count}), format!("step {}: query {:?} reports count={} page_count={} page_num={} page_size={}, the reference says {} {} {} {}", step, q, count, page_count, page_num, page_size, want_count, want_pc, want_pn, q.limit)));
                                break;
                            }
                        }
                    }
                    Err(e) => {
                        violations.push(Violation::new("C10", "query_failed", json!({"collection": colname, "backend": backend}), format!("step {}: query {:?} failed: {}", step, q, e)));
                        break;
                    }
                }
            }
        }
        let mut g = res2.lock().unwrap();
        g.0 = violations;
        g.1 = log;
        g.2 = probes;
        g.3 = nontrivial;
    });
    let mut out = CaseOut { scenario: Some(sc.clone()), ..Default::default() };
    let g = result.lock().unwrap();
    out.violations = g.0.clone();
    for (k, n) in &g.2 {
        ctx.count(k, *n);
    }
    out.nontrivial = g.3;
    out.outcome_hash = vsim::hash_str(&g.1.join("\n"));
    out.distinct_key = Some(out.outcome_hash);
    // distinctness of C10 cases is the history, not the (empty) scenario
    if let Some(s) = out.scenario.as_mut() {
        s.raw_models = vec![];
    }
    out.sample = json!({"collection": col, "backend": sc.engine.store, "history": g.1.iter().take(12).map(|l| l.chars().take(300).collect::<String>()).collect::<Vec<_>>(), "operations": g.1.len()});
    out
}
