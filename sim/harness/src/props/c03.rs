//! C03 — Hierarchical completion and exactly one terminal event per process.
use super::common::*;
use crate::checks::*;
use crate::imgx;
use crate::model::ActKind;
use crate::obs::*;
use crate::scenario::*;
use serde_json::json;

pub fn def() -> CheckDef {
    CheckDef {
        id: "C03",
        title: "Hierarchical completion and exactly one terminal event per process",
        case,
        rule: "case = generated model with sequential and parallel structure (multi-branch steps with several open interrupts, block/parallel/sequence acts; a third with catches on steps and acts; a sixth with a backward `next` jump out of a branch that visits a stretch of steps 2..4 times) x scripted client using abort/skip/error/back/cancel/submit/remove in one branch while siblings are open (with duplicates; an eighth of the cases end every interrupt the same way - error / abort / skip -, so that the second ending arrives after the first has closed what encloses both) + late adversary actions x seeded schedule; oracles at every quiescent point over the live dump (H1), the stored rows and the event stream. non-trivial = a non-complete action was accepted while another interrupt of the process was open, or the process ended by abort/skip/error; distinct = distinct (scenario hash, schedule hash)",
        level: "exploration",
        assumptions: &["monotone simulated clock", "live dump through hook H1 reads the cache only", "no storage errors are injected"],
        probes: &["probe.action_with_open_sibling", "probe.ended_not_completed", "probe.late_action_after_end"],
        quick_cases: 6000,
        no_shrink: &[],
    }
}

const OPTS: LifeOpts = LifeOpts {
    catches: false,
    scripted_actions: &["cancel_prev", "abort", "skip", "error", "back", "cancel", "submit", "remove", "complete"],
    p_scripted: 400,
    adversary: Some((150, 6, &SEVEN)),
    dup: true,
    generators: true,
    hooks: true,
    outputs: false, drop_outputs: true
};

pub fn case(ctx: &mut CaseCtx) -> CaseOut {
    let sc = ctx.scenario(|r| {
        let mut opts = OPTS;
        // a third of the programs with catches (a task that has caught is a composite with catch steps beneath it)
        opts.catches = r.below(3) == 0;
        let mut s = gen_lifecycle(r, &opts);
        // some programs with a backward `next` jump (everything between the target and the jump is visited again)
        let has_generators = { let mut g = false; s.models[0].visit_acts(&mut |a| g |= matches!(a.kind, ActKind::Block { .. } | ActKind::Parallel { .. } | ActKind::Sequence { .. })); g };
        if !has_generators && r.below(6) == 0 {
            add_loop(&mut s.models[0], r);
            s.starts[0].vars.insert("c".into(), json!(0));
        }
        // more parallelism: prefer branching steps
        s.engine.keep_processes = r.below(4) != 0;
        // one family ends every interrupt the same way (error / abort / skip): whenever two interrupts are open
        // side by side the second ending arrives after the first has already closed (or ended) what encloses both
        if r.below(8) == 0 {
            let action = r.pick(&["error", "error", "abort", "skip"]).to_string();
            for list in s.client.reactions.values_mut() {
                if let Some(first) = list.first_mut() {
                    let mut o = first.options.clone();
                    if action == "error" {
                        o.insert("ecode".into(), json!("e1"));
                        o.insert("message".into(), json!("boom"));
                    }
                    *first = Reaction { action: action.clone(), options: o, repeat: first.repeat };
                }
            }
            s.engine.keep_processes = true;
        }
        s
    });
    let rec = ctx.run(&sc);
    let mut out = CaseOut { scenario: Some(sc.clone()), ..Default::default() };
    if discard_if_broken(&rec, &mut out) {
        return out;
    }
    out.violations = hierarchy_oracle(&sc, &rec);
    // probes
    let mut open_sibling = false;
    for a in rec.actions.iter().filter(|a| a.ok && a.action != "complete") {
        if let Some(q) = rec.qpoints.iter().rev().find(|q| q.seq <= a.seq0) {
            if let Some(p) = q.live.iter().find(|p| p.pid == a.pid) {
                if p.tasks.iter().filter(|t| t.state == "interrupted").count() >= 2 {
                    open_sibling = true;
                }
            }
        }
    }
    if open_sibling {
        ctx.count("probe.action_with_open_sibling", 1);
    }
    let ended_other = rec.msgs.iter().any(|m| (m.via == "complete" && m.state != "completed") || m.via == "error");
    if ended_other {
        ctx.count("probe.ended_not_completed", 1);
    }
    let end_seq = rec.msgs.iter().filter(|m| m.via == "complete" || m.via == "error").map(|m| m.seq).min();
    if let Some(e) = end_seq {
        if rec.actions.iter().any(|a| a.seq0 > e) {
            ctx.count("probe.late_action_after_end", 1);
        }
    }
    out.nontrivial = open_sibling || ended_other;
    out.outcome_hash = outcome_hash(&rec);
    out.sample = basic_sample(&sc, &rec, json!({}));
    out
}

fn composite(t: &TaskImg) -> bool {
    t.kind != "act" || matches!(t.uses.as_str(), "acts.core.block" | "acts.core.parallel" | "acts.core.sequence" | "acts.core.subflow")
}

pub fn hierarchy_oracle(sc: &Scenario, rec: &RunRecord) -> Vec<Violation> {
    let mut out = vec![];
    let client_chan = sc.channels[0].label.clone();
    let has_jump = sc.models.iter().any(|m| {
        let mut j = false;
        m.visit_steps(&mut |s| j |= s.next.is_some());
        j
    });
    for q in &rec.qpoints {
        for p in &q.live {
            // (a) a successfully completed composite has only terminal tasks beneath it
            // (walk up from the few open tasks instead of down from every completed one)
            for d in p.tasks.iter().filter(|d| !is_terminal_state(&d.state)) {
                if imgx::under_hook_task(p, d) {
                    continue;
                }
                for t in imgx::ancestors(p, d) {
                    if t.state == "completed" && composite(t) && !imgx::under_hook_task(p, t) {
                        let sig = json!({"after_action": last_special_action(rec, q.seq), "next_jump_model": has_jump});
                        out.push(Violation::new(
                            "C03",
                            "completed_with_open_descendant",
                            sig,
                            format!("quiescent point {}: {} {} of {} is completed while {} {} beneath it is {}", q.idx, t.kind, t.nid, p.pid, d.kind, d.nid, d.state),
                        ));
                        return out;
                    }
                }
            }
            // (b) process state = root state, live and stored
            if let Some(root) = p.tasks.iter().find(|t| t.tid == "$") {
                if stage(&root.state) >= 2 && root.state != p.state {
                    out.push(Violation::new("C03", "proc_state_differs_from_root", json!({"where": "live", "proc": p.state, "root": root.state}), format!("quiescent point {}: live process {} is {} but its root task is {}", q.idx, p.pid, p.state, root.state)));
                    return out;
                }
            }
        }
        for p in &q.rows {
            if let Some(root) = p.tasks.iter().find(|t| t.tid == "$") {
                if stage(&root.state) >= 2 && root.state != p.state && p.state != "<no proc row>" {
                    out.push(Violation::new("C03", "proc_state_differs_from_root", json!({"where": "store", "proc": p.state, "root": root.state}), format!("quiescent point {}: stored process {} is {} but its root row is {}", q.idx, p.pid, p.state, root.state)));
                    return out;
                }
            }
        }
    }
    // (c) events per pid
    for (pid, _) in &rec.started {
        let ev: Vec<&MsgRec> = rec.msgs.iter().filter(|m| m.via != "message" && m.chan == client_chan && &m.pid == pid).collect();
        let starts = ev.iter().filter(|m| m.via == "start").count();
        let terms = ev.iter().filter(|m| m.via != "start").count();
        if starts > 1 || (starts == 0 && !ev.is_empty()) {
            out.push(Violation::new("C03", "start_event_count", json!({"starts": starts}), format!("process {} delivered {} start events", pid, starts)));
            return out;
        }
        if terms > 1 {
            let kinds: Vec<String> = ev.iter().filter(|m| m.via != "start").map(|m| format!("{}:{}", m.via, m.state)).collect();
            let second = ev.iter().filter(|m| m.via != "start").nth(1).map(|m| m.seq).unwrap_or(0);
            out.push(Violation::new("C03", "several_terminal_events", json!({"after_action": last_special_action(rec, second)}), format!("process {} delivered {} terminal events: {:?}", pid, terms, kinds)));
            return out;
        }
        // (d) after a non-error ending nothing is open and nothing can be acted on
        if let Some(end) = ev.iter().find(|m| m.via == "complete") {
            if let Some(q) = rec.qpoints.iter().find(|q| q.seq > end.seq) {
                if let Some(p) = q.live.iter().find(|p| &p.pid == pid) {
                    for t in &p.tasks {
                        if !is_terminal_state(&t.state) && !imgx::under_hook_task(p, t) {
                            let sig = json!({"ending": end.state, "after_action": last_special_action(rec, end.seq), "next_jump_model": has_jump});
                            out.push(Violation::new(
                                "C03",
                                "open_task_under_finished_process",
                                sig,
                                format!("process {} delivered its terminal event ({}) at seq {} but {} {} is still {} at quiescent point {}", pid, end.state, end.seq, t.kind, t.nid, t.state, q.idx),
                            ));
                            return out;
                        }
                    }
                }
            }
            for a in rec.actions.iter().filter(|a| &a.pid == pid && a.seq0 > end.seq && a.ok && SEVEN.contains(&a.action.as_str())) {
                // actions on lifecycle-hook acts stay legal
                let hook = rec.qpoints.iter().rev().find(|q| q.seq <= a.seq0).and_then(|q| q.live.iter().find(|p| &p.pid == pid)).and_then(|p| imgx::task(p, &a.tid).map(|t| imgx::under_hook_task(p, t))).unwrap_or(false);
                if hook {
                    continue;
                }
                out.push(Violation::new(
                    "C03",
                    "action_accepted_after_end",
                    json!({"ending": end.state, "action": a.action}),
                    format!("process {} ended ({}) at seq {}, yet `{}` on task {} was accepted at seq {}", pid, end.state, end.seq, a.action, a.tid, a.seq0),
                ));
                return out;
            }
        }
    }
    out
}
