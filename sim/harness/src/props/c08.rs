//! C08 — Message stream is a faithful, ordered image of task lifecycles.
use super::common::*;
use crate::checks::*;
use crate::imgx;
use crate::model::ActKind;
use crate::obs::*;
use crate::scenario::*;
use serde_json::json;
use std::collections::{BTreeMap, BTreeSet};

pub fn def() -> CheckDef {
    CheckDef {
        id: "C08",
        title: "Message stream is a faithful, ordered image of task lifecycles",
        case,
        rule: "case = generated model (control flow, catches, generated acts, lifecycle hooks) x scripted client using all action kinds (an eighth answering inside the message handler and ending every interrupt the same way: abort / skip / error) x seeded schedule (every message dispatch is an independently scheduled task); the complete stream of a match-all channel is compared with the H2 trace and the live dumps; generation order of messages comes from the id shim. non-trivial = the run delivered >= 6 messages and at least two dispatch tasks were ready at the same time (so delivery order was a scheduler decision); distinct = distinct (scenario hash, schedule hash)",
        level: "exploration",
        assumptions: &["monotone simulated clock", "message generation order is read from the id shim's sequence numbers", "no storage errors are injected"],
        probes: &["probe.delivery_order_differs_from_generation", "probe.caught_error", "probe.msg_act", "probe.non_complete_ending"],
        quick_cases: 6000,
        no_shrink: &[],
    }
}

const OPTS: LifeOpts = LifeOpts {
    catches: true,
    scripted_actions: &["cancel_prev", "complete", "submit", "skip", "abort", "error", "back", "cancel", "remove"],
    p_scripted: 350,
    adversary: None,
    dup: true,
    generators: true,
    hooks: true,
    outputs: true, drop_outputs: true
};

pub fn case(ctx: &mut CaseCtx) -> CaseOut {
    let sc = ctx.scenario(|r| {
        let mut s = gen_lifecycle(r, &OPTS);
        s.engine.keep_processes = true;
        // one family answers inside the message handler and ends every interrupt the same way (abort / skip / error):
        // the ending is processed while tasks that the engine has just scheduled still wait in the queue
        if r.below(8) == 0 {
            let action = r.pick(&["abort", "abort", "skip", "error"]).to_string();
            for list in s.client.reactions.values_mut() {
                if let Some(first) = list.first_mut() {
                    let mut o = first.options.clone();
                    if action == "error" {
                        o.insert("ecode".into(), json!("e1"));
                        o.insert("message".into(), json!("boom"));
                    }
                    *first = Reaction { action: action.clone(), options: o, repeat: 0 };
                }
            }
            s.client.mode = "inline".into();
            s.adversary = None;
        }
        s
    });
    let rec = ctx.run(&sc);
    let mut out = CaseOut { scenario: Some(sc.clone()), ..Default::default() };
    if discard_if_broken(&rec, &mut out) {
        return out;
    }
    out.violations = stream_oracle(&sc, &rec);
    let msgs: Vec<&MsgRec> = rec.msgs.iter().filter(|m| m.via == "message").collect();
    let reordered = msgs.windows(2).any(|w| match (w[0].gen, w[1].gen) {
        (Some(a), Some(b)) => a > b,
        _ => false,
    });
    if reordered {
        ctx.count("probe.delivery_order_differs_from_generation", 1);
    }
    if rec.trans.iter().any(|t| t.old == "error" && t.new == "running") {
        ctx.count("probe.caught_error", 1);
    }
    if msgs.iter().any(|m| m.uses == "acts.core.msg") {
        ctx.count("probe.msg_act", 1);
    }
    if msgs.iter().any(|m| !matches!(m.state.as_str(), "created" | "completed")) {
        ctx.count("probe.non_complete_ending", 1);
    }
    out.nontrivial = msgs.len() >= 6 && rec.counters.get("sim.max_ready").copied().unwrap_or(0) >= 2;
    out.outcome_hash = outcome_hash(&rec);
    out.sample = basic_sample(&sc, &rec, json!({"stream": msgs.iter().take(40).map(|m| format!("{} {} {} {}", m.typ, m.nid, m.key, m.state)).collect::<Vec<_>>()}));
    out
}

pub fn stream_oracle(sc: &Scenario, rec: &RunRecord) -> Vec<Violation> {
    let mut out = vec![];
    let chan = sc.channels[0].label.clone();
    let msgs: Vec<&MsgRec> = rec.msgs.iter().filter(|m| m.via == "message" && m.chan == chan && m.retry == 0).collect();
    // ids unique
    let mut ids = BTreeSet::new();
    for m in &msgs {
        if !ids.insert(m.id.clone()) {
            out.push(Violation::new("C08", "duplicate_message_id", json!({"type": m.typ}), format!("message id {} delivered twice on one channel (tid {} {} {})", m.id, m.tid, m.nid, m.state)));
            return out;
        }
    }
    // final state and kind of every task, from the trace
    let mut fin: BTreeMap<(String, String), (&TransRec, u32)> = BTreeMap::new();
    for t in &rec.trans {
        let e = fin.entry((t.pid.clone(), t.tid.clone())).or_insert((t, 0));
        e.0 = t;
        if t.old == "error" && t.new == "running" {
            e.1 += 1;
        }
    }
    // msg acts are described by their own node; messages emitted by `acts.core.msg` hook/inner acts
    // (Context::emit_message) carry the tid of the task they run in: those are told apart by uses
    let mut per: BTreeMap<(String, String), Vec<&MsgRec>> = BTreeMap::new();
    for m in &msgs {
        per.entry((m.pid.clone(), m.tid.clone())).or_default().push(m);
    }
    for ((pid, tid), list) in &per {
        let Some((last, revivals)) = fin.get(&(pid.clone(), tid.clone())) else {
            out.push(Violation::new("C08", "message_for_unknown_task", json!({"type": list[0].typ}), format!("message {} {} {} names task {} that never had a state write", list[0].typ, list[0].nid, list[0].state, tid)));
            return out;
        };
        let created = list.iter().filter(|m| m.state == "created").count();
        let terminal: Vec<&&MsgRec> = list.iter().filter(|m| m.state != "created").collect();
        let kind = &last.kind;
        let sigbase = |what: &str| json!({"node": kind, "uses": last.uses, "what": what});
        if created > 1 {
            out.push(Violation::new("C08", "duplicate_created_message", sigbase("created"), format!("task {} ({} {}) of {} has {} created messages", tid, kind, last.nid, pid, created)));
            return out;
        }
        if terminal.len() > 1 {
            let st: Vec<String> = terminal.iter().map(|m| m.state.clone()).collect();
            let same = st.iter().all(|x| x == &st[0]);
            // both generated inside one synchronous engine call (one poll / one client call)?
            let same_call = terminal[0].gen_activity.is_some() && terminal[0].gen_activity == terminal[1].gen_activity;
            let after = if same && same_call { "-".to_string() } else { last_special_action(rec, terminal[1].seq) };
            out.push(Violation::new("C08", "duplicate_terminal_message", json!({"node": kind, "same_state": same, "same_call": same_call, "after_action": after}), format!("task {} ({} {}) of {} has {} terminal messages: {:?}", tid, kind, last.nid, pid, terminal.len(), st)));
            return out;
        }
        if kind == "branch" {
            out.push(Violation::new("C08", "branch_message", sigbase("branch"), format!("branch task {} ({}) produced a message", tid, last.nid)));
            return out;
        }
        // field agreement
        for m in list {
            let act = find_act(&sc.models, &m.nid);
            let exp_key = match (kind.as_str(), &act) {
                ("act", Some(a)) if !a.key.is_empty() => a.key.clone(),
                _ => m.nid.clone(),
            };
            let exp_uses = match (kind.as_str(), &act) {
                ("act", Some(a)) => Some(crate::model::render_act(a)["uses"].as_str().unwrap_or("").to_string()),
                ("act", None) => None, // run-time generated act: not in the model
                _ => Some(String::new()),
            };
            let mut bad = vec![];
            if &m.typ != kind {
                bad.push(format!("type {} != {}", m.typ, kind));
            }
            if m.nid != last.nid {
                bad.push(format!("nid {} != {}", m.nid, last.nid));
            }
            if act.is_some() || kind != "act" {
                if m.key != exp_key {
                    bad.push(format!("key {} != {}", m.key, exp_key));
                }
            }
            if let Some(u) = &exp_uses {
                if &m.uses != u {
                    bad.push(format!("uses {} != {}", m.uses, u));
                }
            }
            if !bad.is_empty() {
                out.push(Violation::new("C08", "message_field_mismatch", json!({"node": kind, "fields": bad.iter().map(|b| b.split(' ').next().unwrap_or("").to_string()).collect::<Vec<_>>()}), format!("message {} of task {}: {}", m.id, tid, bad.join("; "))));
                return out;
            }
        }
        // terminal message state = final state; created generated before terminal
        if let Some(tm) = terminal.first() {
            if is_terminal_state(&last.new) && tm.state != last.new {
                out.push(Violation::new("C08", "terminal_message_state_mismatch", json!({"node": kind, "message": tm.state, "task": last.new}), format!("task {} ({} {}) ended {} but its terminal message says {}", tid, kind, last.nid, last.new, tm.state)));
                return out;
            }
            if tm.state == "error" && *revivals > 0 && last.new != "error" {
                out.push(Violation::new("C08", "error_message_for_caught_error", sigbase("caught"), format!("task {} ({} {}) was revived by its catch but an error message was delivered", tid, kind, last.nid)));
                return out;
            }
            if let Some(cm) = list.iter().find(|m| m.state == "created") {
                if let (Some(a), Some(b)) = (cm.gen, tm.gen) {
                    if a > b {
                        out.push(Violation::new("C08", "terminal_generated_before_created", sigbase("order"), format!("task {} ({} {}): terminal message generated (#{}) before its created message (#{})", tid, kind, last.nid, b, a)));
                        return out;
                    }
                }
            }
        }
    }
    // completeness: every workflow / step / irq act that ended has a terminal message with its state;
    // every one that started has a created message; a msg act yields exactly its completion message
    let quiescent_end = !rec.step_cap_hit;
    if quiescent_end {
        for ((pid, tid), (last, _)) in &fin {
            if last.pure_write {
                continue;
            }
            let list = per.get(&(pid.clone(), tid.clone())).cloned().unwrap_or_default();
            let is_irq = last.kind == "act" && last.uses == "acts.core.irq";
            let is_msg = last.kind == "act" && last.uses == "acts.core.msg";
            let reporting = last.kind == "workflow" || last.kind == "step" || is_irq;
            // lifecycle-hook acts and acts with emit disabled are outside the statement
            let hook = rec.qpoints.last().and_then(|q| q.live.iter().find(|p| &p.pid == pid)).and_then(|p| imgx::task(p, tid).map(|t| imgx::under_hook_task(p, t))).unwrap_or(false);
            if hook {
                continue;
            }
            let started = rec.trans.iter().any(|t| &t.pid == pid && &t.tid == tid && (is_created_state(&t.new) || t.new == "running"));
            let skipped_at_init = rec.trans.iter().filter(|t| &t.pid == pid && &t.tid == tid).map(|t| t.new.as_str()).collect::<Vec<_>>() == vec!["ready", "skipped"];
            if reporting && is_terminal_state(&last.new) && !list.iter().any(|m| m.state == last.new) {
                out.push(Violation::new("C08", "missing_terminal_message", json!({"node": last.kind, "uses": last.uses, "state": last.new}), format!("task {} ({} {}) of {} ended {} but no such message was delivered", tid, last.kind, last.nid, pid, last.new)));
                return out;
            }
            if reporting && started && !skipped_at_init && is_terminal_state(&last.new) && !list.iter().any(|m| m.state == "created") {
                // a task that is decided at its initialisation (if: false) reports only its ending
                let only_init = rec.trans.iter().filter(|t| &t.pid == pid && &t.tid == tid && !t.pure_write).count() <= 2;
                if !only_init {
                    out.push(Violation::new("C08", "missing_created_message", json!({"node": last.kind, "uses": last.uses}), format!("task {} ({} {}) of {} started and ended {} but no created message was delivered", tid, last.kind, last.nid, pid, last.new)));
                    return out;
                }
            }
            if is_msg && last.new == "completed" {
                let n = list.len();
                if n != 1 || list[0].state != "completed" {
                    out.push(Violation::new("C08", "msg_act_message_count", json!({"count": n}), format!("message act {} ({}) completed but produced {} messages {:?}", tid, last.nid, n, list.iter().map(|m| m.state.clone()).collect::<Vec<_>>())));
                    return out;
                }
            }
        }
    }
    // a parent's created message is generated before any of its children's
    if let Some(q) = rec.qpoints.last() {
        for p in &q.live {
            for t in &p.tasks {
                let Some(par) = imgx::parent(p, t) else { continue };
                let c = per.get(&(p.pid.clone(), t.tid.clone())).and_then(|l| l.iter().find(|m| m.state == "created")).and_then(|m| m.gen);
                let pc = per.get(&(p.pid.clone(), par.tid.clone())).and_then(|l| l.iter().find(|m| m.state == "created")).and_then(|m| m.gen);
                if let (Some(c), Some(pc)) = (c, pc) {
                    if pc > c {
                        out.push(Violation::new("C08", "child_created_before_parent", json!({"parent": par.kind, "child": t.kind}), format!("created message of {} {} (#{}) generated before its parent's {} {} (#{})", t.kind, t.nid, c, par.kind, par.nid, pc)));
                        return out;
                    }
                }
            }
        }
    }
    let _ = ActKind::Irq;
    out
}
