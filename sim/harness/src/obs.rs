//! Observation records: everything an oracle may look at.
use serde::{Deserialize, Serialize};
use serde_json::Value;
use std::collections::BTreeMap;

#[derive(Clone, Debug, Serialize, Deserialize)]
pub struct MsgRec {
    pub seq: u64,
    /// channel label (scenario name of the channel)
    pub chan: String,
    /// message | start | complete | error
    pub via: String,
    pub id: String,
    /// generation sequence number of the message id (id shim); None if the id was not generated in this run
    pub gen: Option<u64>,
    /// the activity (one poll / one client call) during which the message was generated
    pub gen_activity: Option<u64>,
    pub pid: String,
    pub tid: String,
    pub nid: String,
    pub mid: String,
    pub key: String,
    pub typ: String,
    pub uses: String,
    pub state: String,
    pub tag: String,
    pub model_tag: String,
    pub name: String,
    pub inputs: Value,
    pub outputs: Value,
    pub retry: i32,
    pub start_time: i64,
    pub end_time: i64,
    pub epoch: u32,
    pub now_us: i64,
}

#[derive(Clone, Debug, Serialize, Deserialize)]
pub struct TransRec {
    pub seq: u64,
    pub pid: String,
    pub tid: String,
    pub kind: String,
    pub nid: String,
    pub uses: String,
    pub old: String,
    pub new: String,
    pub pure_write: bool,
    pub epoch: u32,
    pub now_us: i64,
}

#[derive(Clone, Debug, Serialize, Deserialize)]
pub struct ActionRec {
    pub seq0: u64,
    pub seq1: u64,
    pub pid: String,
    pub tid: String,
    pub action: String,
    pub options: Value,
    pub ok: bool,
    pub err: String,
    /// key of the targeted act when the client knew it
    pub key: String,
    /// who issued it: client | adversary | thread<i>
    pub by: String,
    /// the engine was quiescent when the action was issued
    pub at_quiescence: bool,
}

#[derive(Clone, Debug, Serialize, Deserialize, PartialEq)]
pub struct TaskImg {
    pub tid: String,
    pub nid: String,
    pub kind: String,
    pub uses: String,
    pub key: String,
    pub level: usize,
    pub state: String,
    pub prev: Option<String>,
    pub data: Value,
    pub err: Option<Value>,
    pub start_time: i64,
    pub end_time: i64,
    pub timestamp: i64,
    pub hooks: Value,
}

#[derive(Clone, Debug, Serialize, Deserialize)]
pub struct ProcImg {
    pub pid: String,
    pub mid: String,
    pub state: String,
    pub err: Option<Value>,
    pub env: Value,
    pub start_time: i64,
    pub end_time: i64,
    pub timestamp: i64,
    pub tasks: Vec<TaskImg>,
}

#[derive(Clone, Debug, Serialize, Deserialize)]
pub struct MsgRow {
    pub id: String,
    pub pid: String,
    pub tid: String,
    pub key: String,
    pub state: String,
    pub status: String,
    pub retry_times: i32,
    pub create_time: i64,
    pub update_time: i64,
    pub chan_id: String,
}

/// what the store holds (rows) and what the engine holds in memory (live), at one quiescent point
#[derive(Clone, Debug, Serialize, Deserialize, Default)]
pub struct QPoint {
    pub idx: usize,
    pub seq: u64,
    pub now_us: i64,
    pub epoch: u32,
    pub live: Vec<ProcImg>,
    pub rows: Vec<ProcImg>,
    pub msg_rows: Vec<MsgRow>,
    /// harness operation that follows this point (for reports)
    pub next_op: String,
}

#[derive(Clone, Debug, Serialize, Deserialize)]
pub struct OpRec {
    pub seq: u64,
    pub qidx: usize,
    pub op: String,
    pub detail: String,
}

#[derive(Clone, Debug, Default, Serialize, Deserialize)]
pub struct RunRecord {
    pub msgs: Vec<MsgRec>,
    pub trans: Vec<TransRec>,
    pub actions: Vec<ActionRec>,
    pub qpoints: Vec<QPoint>,
    pub ops: Vec<OpRec>,
    /// pids started by the harness (in start order) with their model id
    pub started: Vec<(String, String)>,
    pub start_errors: Vec<(String, String)>,
    pub step_cap_hit: bool,
    pub steps: u64,
    pub sim_time_us: i64,
    pub log_hash: u64,
    pub sched_hash: u64,
    pub decisions: Vec<(u16, u32, u32)>,
    pub diverged: Option<String>,
    pub panics: Vec<String>,
    pub counters: BTreeMap<String, u64>,
    pub log_lines: Vec<String>,
}

impl RunRecord {
    pub fn count(&mut self, k: &str) {
        *self.counters.entry(k.to_string()).or_default() += 1;
    }
    pub fn events_of<'a>(&'a self, pid: &'a str) -> impl Iterator<Item = &'a MsgRec> + 'a {
        self.msgs.iter().filter(move |m| m.via != "message" && m.pid == pid)
    }
    pub fn terminal_event<'a>(&'a self, pid: &'a str, chan: &'a str) -> Option<&'a MsgRec> {
        self.msgs.iter().find(|m| (m.via == "complete" || m.via == "error") && m.pid == pid && m.chan == chan)
    }
}

pub fn is_terminal_state(s: &str) -> bool {
    matches!(s, "completed" | "submitted" | "backed" | "cancelled" | "error" | "skipped" | "aborted" | "removed")
}

pub fn is_created_state(s: &str) -> bool {
    matches!(s, "ready" | "pending" | "interrupted")
}

pub fn stage(s: &str) -> u8 {
    match s {
        "none" => 0,
        "ready" | "pending" | "interrupted" => 1,
        "running" => 2,
        _ => 3,
    }
}
