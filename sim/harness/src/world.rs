//! World: one simulated deployment — engine instance(s) on a store, channels, the client, the
//! recorder — and the driver loop that alternates "run until quiescent" with harness operations.
use crate::obs::*;
use crate::scenario::*;
use acts::{data, query::Query, ChannelOptions, DbCollection, Engine, EngineBuilder, PageData, Vars, Workflow};
use serde_json::{json, Map, Value};
use std::collections::{BTreeMap, BTreeSet};
use std::sync::{Arc, Mutex};
use vsim::site;

// ---------------------------------------------------------------------------------------------
// recorder

#[derive(Clone, Debug)]
pub struct OpenAct {
    pub pid: String,
    pub tid: String,
    pub key: String,
    pub nid: String,
    pub occ: usize,
    pub gen: u64,
    pub inputs: Value,
}

#[derive(Default)]
pub struct Recorder {
    pub rec: RunRecord,
    pub open: Vec<OpenAct>,
    pub occ: BTreeMap<String, usize>,
    pub seen_tids: BTreeSet<(String, String)>,
    pub seen_irq_tids: BTreeSet<(String, String)>,
    pub store_calls: Vec<(u64, String, String, String)>,
    pub record_store_calls: bool,
    pub deliveries: BTreeMap<String, u32>,
    pub pending_acks: Vec<(String, u32)>,
    /// generated id -> model id of the nodes that are written without an id (`MWorkflow::anon`)
    pub anon_ids: BTreeMap<String, String>,
}

/// replace the generated ids of anonymous nodes wherever they appear as a string value
fn deanon(v: &Value, map: &BTreeMap<String, String>) -> Value {
    if map.is_empty() {
        return v.clone();
    }
    match v {
        Value::String(s) => match map.get(s) {
            Some(c) => Value::String(c.clone()),
            None => v.clone(),
        },
        Value::Array(a) => Value::Array(a.iter().map(|x| deanon(x, map)).collect()),
        Value::Object(m) => Value::Object(m.iter().map(|(k, x)| (k.clone(), deanon(x, map))).collect()),
        _ => v.clone(),
    }
}

pub type Rec = Arc<Mutex<Recorder>>;

static CURRENT: Mutex<Option<Rec>> = Mutex::new(None);

fn current() -> Option<Rec> {
    CURRENT.lock().unwrap_or_else(|e| e.into_inner()).clone()
}

pub fn install_state_hook() {
    acts::verif::set_state_hook(Some(Arc::new(|pid, tid, kind, nid, name, uses, old, new, pure_write| {
        if let Some(r) = current() {
            let raw = nid;
            let nid = &crate::model::canon_nid(nid, name);
            if nid != raw {
                r.lock().unwrap().anon_ids.insert(raw.to_string(), nid.to_string());
            }
            let seq = vsim::bump_seq();
            let epoch = vsim::cur_epoch();
            vsim::log(&format!("T {pid} {kind} {nid} {old}->{new}{}", if pure_write { " (pure)" } else { "" }));
            let mut r = r.lock().unwrap();
            r.rec.trans.push(TransRec {
                seq,
                pid: pid.into(),
                tid: tid.into(),
                kind: kind.into(),
                nid: nid.into(),
                uses: uses.into(),
                old: old.into(),
                new: new.into(),
                pure_write,
                epoch,
                now_us: vsim::peek_now_us(),
            });
        }
    })));
}

// ---------------------------------------------------------------------------------------------
// store proxies

pub struct Proxy<T> {
    name: &'static str,
    inner: Arc<dyn DbCollection<Item = T>>,
    id_of: fn(&T) -> String,
}

impl<T> Proxy<T> {
    fn note(&self, op: &str, id: &str) {
        if let Some(r) = current() {
            let mut r = r.lock().unwrap();
            if r.record_store_calls {
                let seq = vsim::bump_seq();
                r.store_calls.push((seq, self.name.to_string(), op.to_string(), id.to_string()));
            }
        }
    }
}

impl<T: Send + Sync> DbCollection for Proxy<T> {
    type Item = T;
    fn exists(&self, id: &str) -> acts::Result<bool> {
        self.inner.exists(id)
    }
    fn find(&self, id: &str) -> acts::Result<T> {
        self.inner.find(id)
    }
    fn query(&self, q: &Query) -> acts::Result<PageData<T>> {
        self.inner.query(q)
    }
    fn create(&self, d: &T) -> acts::Result<bool> {
        self.note("create", &(self.id_of)(d));
        self.inner.create(d)
    }
    fn update(&self, d: &T) -> acts::Result<bool> {
        self.note("update", &(self.id_of)(d));
        self.inner.update(d)
    }
    fn delete(&self, id: &str) -> acts::Result<bool> {
        self.note("delete", id);
        self.inner.delete(id)
    }
}

fn register_proxies(engine: &Engine, cols: &acts::verif::Collections) {
    let ext = engine.extender();
    ext.register_collection::<data::Package>(Arc::new(Proxy { name: "packages", inner: cols.packages.clone(), id_of: |d: &data::Package| d.id.clone() }));
    ext.register_collection::<data::Model>(Arc::new(Proxy { name: "models", inner: cols.models.clone(), id_of: |d: &data::Model| d.id.clone() }));
    ext.register_collection::<data::Proc>(Arc::new(Proxy { name: "procs", inner: cols.procs.clone(), id_of: |d: &data::Proc| d.id.clone() }));
    ext.register_collection::<data::Task>(Arc::new(Proxy { name: "tasks", inner: cols.tasks.clone(), id_of: |d: &data::Task| d.id.clone() }));
    ext.register_collection::<data::Message>(Arc::new(Proxy { name: "messages", inner: cols.messages.clone(), id_of: |d: &data::Message| d.id.clone() }));
    ext.register_collection::<data::Event>(Arc::new(Proxy { name: "events", inner: cols.events.clone(), id_of: |d: &data::Event| d.id.clone() }));
}

// ---------------------------------------------------------------------------------------------
// scratch directory of this worker process

pub fn scratch_dir() -> String {
    let base = if std::path::Path::new("/dev/shm").is_dir() { "/dev/shm".to_string() } else { std::env::temp_dir().to_string_lossy().to_string() };
    let d = format!("{}/acts-sim-{}", base, std::process::id());
    let _ = std::fs::create_dir_all(&d);
    d
}

pub fn cleanup_scratch() {
    let _ = std::fs::remove_dir_all(scratch_dir());
}

// ---------------------------------------------------------------------------------------------
// world

pub struct World {
    pub sc: Scenario,
    pub engine: Option<Engine>,
    pub epoch: u32,
    pub rec: Rec,
    /// the backing collections (unwrapped): survive a restart
    pub backing: Option<acts::verif::Collections>,
    pub db_file: Option<String>,
    pub channels: Vec<Option<Arc<acts::Channel>>>,
    pub qidx: usize,
    pub ops_done: u32,
    /// client reactions so far, and how many time_ops have been applied
    pub reacts_done: u32,
    pub time_ops_done: usize,
    pub adv_done: u32,
    pub ticks_left: u32,
    pub total_steps: u64,
    run_tag: u64,
}

fn json_or_str(s: &str) -> Value {
    serde_json::from_str(s).unwrap_or(Value::String(s.to_string()))
}

fn opt_json(s: &Option<String>) -> Option<Value> {
    s.as_ref().map(|x| json_or_str(x))
}

fn img_from_live(p: &acts::verif::LiveProc) -> ProcImg {
    ProcImg {
        pid: p.pid.clone(),
        mid: p.mid.clone(),
        state: p.state.clone(),
        err: opt_json(&p.err),
        env: json_or_str(&p.env),
        start_time: p.start_time,
        end_time: p.end_time,
        timestamp: p.timestamp,
        tasks: p
            .tasks
            .iter()
            .map(|t| TaskImg {
                tid: t.tid.clone(),
                nid: crate::model::canon_nid(&t.nid, &t.name),
                kind: t.kind.clone(),
                uses: t.uses.clone(),
                key: t.key.clone(),
                level: t.level,
                state: t.state.clone(),
                prev: t.prev.clone(),
                data: json_or_str(&t.data),
                err: opt_json(&t.err),
                start_time: t.start_time,
                end_time: t.end_time,
                timestamp: t.timestamp,
                hooks: json_or_str(&t.hooks),
            })
            .collect(),
    }
}

impl World {
    pub fn new(sc: &Scenario, run_tag: u64) -> World {
        let rec: Rec = Arc::new(Mutex::new(Recorder::default()));
        *CURRENT.lock().unwrap_or_else(|e| e.into_inner()) = Some(rec.clone());
        let mut w = World {
            sc: sc.clone(),
            engine: None,
            epoch: 0,
            rec,
            backing: None,
            db_file: None,
            channels: vec![],
            qidx: 0,
            ops_done: 0,
            reacts_done: 0,
            time_ops_done: 0,
            adv_done: 0,
            ticks_left: sc.ticks,
            total_steps: 0,
            run_tag,
        };
        if sc.pre_jump_us > 0 {
            vsim::jump_us(sc.pre_jump_us);
        }
        w.boot();
        w
    }

    pub fn detach() {
        *CURRENT.lock().unwrap_or_else(|e| e.into_inner()) = None;
    }

    pub fn engine(&self) -> &Engine {
        self.engine.as_ref().expect("engine")
    }

    /// build an engine (new epoch) on the existing store, register channels
    fn boot(&mut self) {
        self.epoch = vsim::epoch_begin();
        let dir = scratch_dir();
        let cfg_path = format!("{}/cfg-{}.toml", dir, self.run_tag);
        let e = &self.sc.engine;
        let mut cfg = format!(
            "cache_cap = {}\nkeep_processes = {}\ntick_interval_secs = {}\nmax_message_retry_times = {}\n",
            e.cache_cap, e.keep_processes, e.tick_interval_secs, e.max_message_retry_times
        );
        let sqlite = e.store == "sqlite";
        if sqlite {
            if self.db_file.is_none() {
                let f = format!("{}/db-{}.sqlite", dir, self.run_tag);
                let _ = std::fs::remove_file(&f);
                self.db_file = Some(f);
            }
            cfg.push_str(&format!("[sqlite]\ndatabase_url = \"sqlite://{}\"\n", self.db_file.as_ref().unwrap()));
        }
        std::fs::write(&cfg_path, cfg).expect("write cfg");
        let mut b = EngineBuilder::new().set_config_source(std::path::Path::new(&cfg_path));
        if sqlite {
            b = b.add_plugin(&acts_store_sqlite::SqliteStore);
        }
        let engine = vsim::block_on_ready(b.build()).expect("engine build");
        let _ = std::fs::remove_file(&cfg_path);
        // the collections the engine runs on: the plugin's (sqlite, fresh connection pool on the
        // same file) or the in-memory ones of the first engine, transplanted
        let backing = if sqlite || self.backing.is_none() { acts::verif::collections(&engine) } else { self.backing.clone().unwrap() };
        register_proxies(&engine, &backing);
        self.backing = Some(backing);
        let engine = engine.start();
        self.engine = Some(engine);
        // channels
        self.channels.clear();
        for i in 0..self.sc.channels.len() {
            let ch = self.open_channel(i);
            self.channels.push(Some(ch));
        }
        vsim::log(&format!("BOOT epoch={}", self.epoch));
    }

    pub fn chan_id(&self, i: usize) -> String {
        let spec = &self.sc.channels[i];
        if spec.id.is_empty() { format!("c{}", i) } else { spec.id.clone() }
    }

    pub fn open_channel(&self, i: usize) -> Arc<acts::Channel> {
        let spec = self.sc.channels[i].clone();
        let opts = ChannelOptions {
            id: self.chan_id(i),
            ack: spec.ack,
            r#type: spec.typ.clone(),
            state: spec.state.clone(),
            tag: spec.tag.clone(),
            key: spec.key.clone(),
            uses: spec.uses.clone(),
        };
        let ch = self.engine().channel_with_options(&opts);
        let label = spec.label.clone();
        let is_client = i == 0;
        let mk = |via: &'static str| {
            let rec = self.rec.clone();
            let label = label.clone();
            let engine = self.engine().clone();
            let client = self.sc.client.clone();
            let acking = spec.ack;
            move |e: &acts::Event<acts::Message>| {
                let m: &acts::Message = e;
                let seq = vsim::bump_seq();
                let gen = vsim::id_seq(&m.id);
                let gen_activity = vsim::id_activity(&m.id);
                let canon = crate::model::canon_nid(&m.nid, &m.name);
                let anon_ids = {
                    let mut g = rec.lock().unwrap();
                    if canon != m.nid {
                        g.anon_ids.insert(m.nid.clone(), canon.clone());
                    }
                    g.anon_ids.clone()
                };
                let r = MsgRec {
                    seq,
                    chan: label.clone(),
                    via: via.to_string(),
                    id: m.id.clone(),
                    gen,
                    gen_activity,
                    pid: m.pid.clone(),
                    tid: m.tid.clone(),
                    nid: canon,
                    mid: m.mid.clone(),
                    key: anon_ids.get(&m.key).cloned().unwrap_or_else(|| m.key.clone()),
                    typ: m.r#type.clone(),
                    uses: m.uses.clone(),
                    state: m.state.as_ref().to_string(),
                    tag: m.tag.clone(),
                    model_tag: m.model.tag.clone(),
                    name: m.name.clone(),
                    inputs: deanon(&m.inputs.clone().into(), &anon_ids),
                    outputs: deanon(&m.outputs.clone().into(), &anon_ids),
                    retry: m.retry_times,
                    start_time: m.start_time,
                    end_time: m.end_time,
                    epoch: vsim::cur_epoch(),
                    now_us: vsim::peek_now_us(),
                };
                vsim::log(&format!(
                    "M {} {} {} {} nid={} key={} {} retry={} in={} out={}",
                    r.chan, r.via, r.pid, r.typ, r.nid, r.key, r.state, r.retry, r.inputs, r.outputs
                ));
                let mut open_now: Option<OpenAct> = None;
                let mut ack_now = false;
                {
                    let mut g = rec.lock().unwrap();
                    g.seen_tids.insert((r.pid.clone(), r.tid.clone()));
                    if via == "message" && acking {
                        let n = {
                            let d = g.deliveries.entry(r.id.clone()).or_default();
                            *d += 1;
                            *d
                        };
                        let policy = client.ack_by_key.get(&r.key).cloned().unwrap_or_else(|| client.ack.clone());
                        match policy.as_str() {
                            "now" => ack_now = true,
                            "twice" => ack_now = true,
                            s if s.starts_with("later:") => {
                                let k: u32 = s[6..].parse().unwrap_or(1);
                                if n > k {
                                    ack_now = true;
                                }
                            }
                            _ => {}
                        }
                    }
                    if is_client && via == "message" && r.uses == "acts.core.irq" && r.state == "created" && r.typ == "act" {
                        let first = g.seen_irq_tids.insert((r.pid.clone(), r.tid.clone()));
                        if first {
                            let occ = {
                                // occurrences are counted per process
                                let o = g.occ.entry(format!("{}\u{1}{}", r.pid, r.key)).or_default();
                                *o += 1;
                                *o - 1
                            };
                            let oa = OpenAct { pid: r.pid.clone(), tid: r.tid.clone(), key: r.key.clone(), nid: r.nid.clone(), occ, gen: gen.unwrap_or(0), inputs: r.inputs.clone() };
                            if client.mode == "sequential" {
                                g.open.push(oa);
                            } else {
                                open_now = Some(oa);
                            }
                        }
                    }
                    g.rec.msgs.push(r.clone());
                }
                if ack_now {
                    let twice = client.ack_by_key.get(&r.key).map(|p| p == "twice").unwrap_or(client.ack == "twice");
                    let _ = engine.executor().msg().ack(&r.id);
                    if twice {
                        let _ = engine.executor().msg().ack(&r.id);
                    }
                    let seq = vsim::bump_seq();
                    vsim::log(&format!("ACK {}", r.key));
                    let mut g = rec.lock().unwrap();
                    g.rec.ops.push(OpRec { seq, qidx: 0, op: "ack".into(), detail: r.id.clone() });
                    g.rec.count("client.acks");
                }
                if let Some(oa) = open_now {
                    if client.mode == "inline" {
                        react(&engine, &rec, &client, &oa, false);
                    } else {
                        let engine = engine.clone();
                        let rec = rec.clone();
                        let client = client.clone();
                        vsim::spawn_labeled(
                            "client::react",
                            Box::pin(async move {
                                react(&engine, &rec, &client, &oa, false);
                            }),
                        );
                    }
                }
            }
        };
        ch.on_message(mk("message"));
        ch.on_start(mk("start"));
        ch.on_complete(mk("complete"));
        ch.on_error(mk("error"));
        ch
    }

    pub fn deploy_all(&mut self) -> Result<(), String> {
        let ex = self.engine().executor();
        let models = self.sc.models.clone();
        for m in &models {
            let wf = if self.sc.deploy_yaml {
                Workflow::from_yml(&crate::model::to_yaml(m)).map_err(|e| format!("from_yml {}: {}", m.id, e))?
            } else {
                Workflow::from_json(&crate::model::render_workflow(m).to_string()).map_err(|e| format!("from_json {}: {}", m.id, e))?
            };
            ex.model().deploy(&wf).map_err(|e| format!("deploy {}: {}", m.id, e))?;
        }
        for y in self.sc.raw_models.clone() {
            let wf = Workflow::from_yml(&y).map_err(|e| format!("from_yml raw: {}", e))?;
            ex.model().deploy(&wf).map_err(|e| format!("deploy raw: {}", e))?;
        }
        Ok(())
    }

    pub fn start(&mut self, st: &Start) {
        let mut vars: Vars = Value::Object(st.vars.clone()).into();
        if let Some(pid) = &st.pid {
            vars = vars.with("pid", pid);
        }
        vsim::set_epoch(self.epoch);
        let r = self.engine().executor().proc().start(&st.model, &vars);
        let mut g = self.rec.lock().unwrap();
        match r {
            Ok(pid) => {
                vsim::log(&format!("START {} {}", st.model, pid));
                g.rec.started.push((pid, st.model.clone()));
            }
            Err(e) => {
                vsim::log(&format!("START {} failed: {}", st.model, e));
                g.rec.start_errors.push((st.model.clone(), e.to_string()));
            }
        }
    }

    /// run until quiescent; chan_ops scheduled by step count are applied at task boundaries
    pub fn settle(&mut self) -> vsim::Outcome {
        let cap = self.sc.step_cap;
        let mut n = 0u64;
        loop {
            // channel (de)registration while dispatches are in flight
            let due: Vec<ChanOp> = self.sc.chan_ops.iter().filter(|o| o.at_step == self.total_steps).cloned().collect();
            for o in due {
                self.apply_chan_op(&o);
            }
            if !vsim::step() {
                if vsim::fire_due_timers() == 0 {
                    return vsim::Outcome::Quiescent;
                }
                continue;
            }
            n += 1;
            self.total_steps += 1;
            if n >= cap {
                self.rec.lock().unwrap().rec.step_cap_hit = true;
                return vsim::Outcome::StepCap;
            }
        }
    }

    pub fn apply_chan_op(&mut self, o: &ChanOp) {
        if o.chan >= self.channels.len() {
            return;
        }
        vsim::set_epoch(self.epoch);
        let seq = vsim::bump_seq();
        match o.kind.as_str() {
            "close" => {
                if let Some(ch) = &self.channels[o.chan] {
                    ch.close();
                }
                self.channels[o.chan] = None;
            }
            "unsub" => {
                let _ = self.engine().executor().msg().unsub(&self.chan_id(o.chan));
                self.channels[o.chan] = None;
            }
            "reopen" => {
                let ch = self.open_channel(o.chan);
                self.channels[o.chan] = Some(ch);
            }
            _ => {}
        }
        vsim::log(&format!("CHANOP {} {}", o.kind, o.chan));
        let mut g = self.rec.lock().unwrap();
        let qidx = self.qidx;
        g.rec.ops.push(OpRec { seq, qidx, op: format!("chan_{}", o.kind), detail: self.sc.channels[o.chan].label.clone() });
    }

    pub fn live(&self) -> Vec<ProcImg> {
        acts::verif::live_procs(self.engine()).iter().map(img_from_live).collect()
    }

    pub fn rows(&self) -> (Vec<ProcImg>, Vec<MsgRow>) {
        let cols = self.backing.as_ref().unwrap();
        let q = Query::new();
        let procs = cols.procs.query(&q).map(|p| p.rows).unwrap_or_default();
        let tasks = cols.tasks.query(&q).map(|p| p.rows).unwrap_or_default();
        let msgs = cols.messages.query(&q).map(|p| p.rows).unwrap_or_default();
        let mut out = Vec::new();
        for p in procs {
            let mut img = ProcImg {
                pid: p.id.clone(),
                mid: p.mid.clone(),
                state: p.state.clone(),
                err: opt_json(&p.err),
                env: json_or_str(&p.env),
                start_time: p.start_time,
                end_time: p.end_time,
                timestamp: p.timestamp,
                tasks: vec![],
            };
            for t in tasks.iter().filter(|t| t.pid == p.id) {
                let nd: Value = json_or_str(&t.node_data);
                let content = nd.get("content").cloned().unwrap_or(Value::Null);
                let act = content.get("Act");
                img.tasks.push(TaskImg {
                    tid: t.tid.clone(),
                    nid: crate::model::canon_nid(nd.get("id").and_then(|v| v.as_str()).unwrap_or(""), &t.name),
                    kind: t.kind.clone(),
                    uses: act.and_then(|a| a.get("uses")).and_then(|v| v.as_str()).unwrap_or("").to_string(),
                    key: act.and_then(|a| a.get("key")).and_then(|v| v.as_str()).unwrap_or("").to_string(),
                    level: nd.get("level").and_then(|v| v.as_u64()).unwrap_or(0) as usize,
                    state: t.state.clone(),
                    prev: t.prev.clone(),
                    data: json_or_str(&t.data),
                    err: opt_json(&t.err),
                    start_time: t.start_time,
                    end_time: t.end_time,
                    timestamp: t.timestamp,
                    hooks: json_or_str(&t.hooks),
                });
            }
            img.tasks.sort_by(|a, b| a.tid.cmp(&b.tid));
            out.push(img);
        }
        // task rows without a process row
        let known: BTreeSet<String> = out.iter().map(|p| p.pid.clone()).collect();
        let mut orphans: BTreeMap<String, Vec<&data::Task>> = BTreeMap::new();
        for t in tasks.iter().filter(|t| !known.contains(&t.pid)) {
            orphans.entry(t.pid.clone()).or_default().push(t);
        }
        for (pid, ts) in orphans {
            out.push(ProcImg {
                pid: pid.clone(),
                mid: String::new(),
                state: "<no proc row>".into(),
                err: None,
                env: Value::Null,
                start_time: 0,
                end_time: 0,
                timestamp: 0,
                tasks: ts
                    .iter()
                    .map(|t| TaskImg {
                        tid: t.tid.clone(),
                        nid: String::new(),
                        kind: t.kind.clone(),
                        uses: String::new(),
                        key: String::new(),
                        level: 0,
                        state: t.state.clone(),
                        prev: t.prev.clone(),
                        data: json_or_str(&t.data),
                        err: opt_json(&t.err),
                        start_time: t.start_time,
                        end_time: t.end_time,
                        timestamp: t.timestamp,
                        hooks: Value::Null,
                    })
                    .collect(),
            });
        }
        out.sort_by(|a, b| a.pid.cmp(&b.pid));
        let mrows = msgs
            .iter()
            .map(|m| MsgRow {
                id: m.id.clone(),
                pid: m.pid.clone(),
                tid: m.tid.clone(),
                key: m.key.clone(),
                state: m.state.as_ref().to_string(),
                status: m.status.to_string(),
                retry_times: m.retry_times,
                create_time: m.create_time,
                update_time: m.update_time,
                chan_id: m.chan_id.clone(),
            })
            .collect();
        (out, mrows)
    }

    pub fn capture(&mut self, next_op: &str) {
        let live = self.live();
        let (rows, msg_rows) = self.rows();
        let q = QPoint { idx: self.qidx, seq: vsim::seq(), now_us: vsim::peek_now_us(), epoch: self.epoch, live, rows, msg_rows, next_op: next_op.to_string() };
        self.rec.lock().unwrap().rec.qpoints.push(q);
    }

    pub fn restart(&mut self) {
        let seq = vsim::bump_seq();
        vsim::log("RESTART");
        vsim::crash(self.epoch);
        self.channels.clear();
        // the old engine is leaked on purpose: a killed process runs no destructors
        if let Some(e) = self.engine.take() {
            std::mem::forget(e);
        }
        {
            let mut g = self.rec.lock().unwrap();
            let qidx = self.qidx;
            g.rec.ops.push(OpRec { seq, qidx, op: "restart".into(), detail: String::new() });
            g.rec.count("fault.restart");
        }
        self.boot();
    }

    pub fn evict(&mut self, pid: &str) {
        let seq = vsim::bump_seq();
        let was = acts::verif::live_proc(self.engine(), pid).is_some();
        acts::verif::evict(self.engine(), pid);
        vsim::log(&format!("EVICT {} cached={}", pid, was));
        let mut g = self.rec.lock().unwrap();
        let qidx = self.qidx;
        g.rec.ops.push(OpRec { seq, qidx, op: "evict".into(), detail: pid.to_string() });
        if was {
            g.rec.count("fault.evict");
        }
    }

    /// jump the clock to the next timer (the engine's tick) and fire it
    pub fn tick(&mut self) -> bool {
        if vsim::advance_to_next_timer() {
            let now = vsim::peek_now_us();
            vsim::log("TICK");
            let mut g = self.rec.lock().unwrap();
            let qidx = self.qidx;
            g.rec.ops.push(OpRec { seq: vsim::seq(), qidx, op: "tick".into(), detail: now.to_string() });
            g.rec.count("driver.timer_advance");
            true
        } else {
            false
        }
    }

    fn apply_faults(&mut self) -> bool {
        let due: Vec<FaultOp> = self.sc.faults.iter().filter(|f| f.at_q == self.qidx).cloned().collect();
        let mut any = false;
        for f in due {
            any = true;
            match f.kind.as_str() {
                "restart" => self.restart(),
                "evict" => {
                    let pid = self.rec.lock().unwrap().rec.started.get(f.arg as usize).map(|p| p.0.clone());
                    if let Some(pid) = pid {
                        self.evict(&pid);
                    }
                }
                "evict_all" => {
                    let pids: Vec<String> = self.live().iter().map(|p| p.pid.clone()).collect();
                    for pid in pids {
                        self.evict(&pid);
                    }
                }
                "jump" => {
                    vsim::jump_us(f.arg);
                    vsim::log(&format!("JUMP {}us", f.arg));
                    let mut g = self.rec.lock().unwrap();
                    let qidx = self.qidx;
                    g.rec.ops.push(OpRec { seq: vsim::seq(), qidx, op: "jump".into(), detail: f.arg.to_string() });
                    g.rec.count("fault.jump");
                }
                // the engine's tick fires now, while interrupts are still open (timeout rules, redelivery)
                "tick" => {
                    if self.tick() {
                        self.rec.lock().unwrap().rec.count("fault.tick_while_open");
                    }
                }
                _ => {}
            }
        }
        any
    }

    fn pick_open(&mut self) -> Option<OpenAct> {
        let mut g = self.rec.lock().unwrap();
        if g.open.is_empty() {
            return None;
        }
        let i = match self.sc.client.order.as_str() {
            "random" => {
                let n = g.open.len() as u32;
                drop(g);
                let k = vsim::choose(site::CLIENT, n) as usize;
                g = self.rec.lock().unwrap();
                k
            }
            "random_pid_canonical" => {
                // any process (seeded), but within the process the smallest (key, occurrence): the
                // client-visible history of each process is then the same as in a solo run
                let mut pids: Vec<String> = g.open.iter().map(|o| o.pid.clone()).collect();
                pids.sort();
                pids.dedup();
                let n = pids.len() as u32;
                drop(g);
                let pid = pids[vsim::choose(site::CLIENT, n) as usize].clone();
                g = self.rec.lock().unwrap();
                let mut best: Option<usize> = None;
                for (i, o) in g.open.iter().enumerate() {
                    if o.pid != pid {
                        continue;
                    }
                    match best {
                        None => best = Some(i),
                        Some(b) => {
                            if (&o.key, o.occ) < (&g.open[b].key, g.open[b].occ) {
                                best = Some(i);
                            }
                        }
                    }
                }
                best.unwrap_or(0)
            }
            "canonical" => {
                let mut best = 0;
                for (i, o) in g.open.iter().enumerate() {
                    let b = &g.open[best];
                    if (&o.key, o.occ, &o.pid) < (&b.key, b.occ, &b.pid) {
                        best = i;
                    }
                }
                best
            }
            _ => 0,
        };
        Some(g.open.remove(i))
    }

    fn adversary_act(&mut self) -> bool {
        let Some(adv) = self.sc.adversary.clone() else { return false };
        if self.adv_done >= adv.max_actions || adv.actions.is_empty() {
            return false;
        }
        if !vsim::chance(site::CLIENT, adv.permille) {
            return false;
        }
        // target: any (pid, tid) ever seen in a message, the root, a made-up tid, a made-up pid
        let mut targets: Vec<(String, String)> = self.rec.lock().unwrap().seen_tids.iter().cloned().collect();
        let pids: Vec<String> = self.rec.lock().unwrap().rec.started.iter().map(|p| p.0.clone()).collect();
        for p in &pids {
            targets.push((p.clone(), "$".into()));
            targets.push((p.clone(), "no_such_tid".into()));
        }
        targets.push(("no_such_pid".into(), "no_such_tid".into()));
        targets.sort();
        targets.dedup();
        let mut t = targets[vsim::choose(site::CLIENT, targets.len() as u32) as usize].clone();
        let action = adv.actions[vsim::choose(site::CLIENT, adv.actions.len() as u32) as usize].clone();
        // half of the time the target is one the action is meaningful for (cancel: an act that is already
        // closed; push: a running step; the others: an open act), so that multi-step histories such as
        // complete / skip / cancel are reached, not only rejected calls
        if vsim::choose(site::CLIENT, 2) == 1 {
            let mut last: BTreeMap<(String, String), (String, String)> = BTreeMap::new();
            for tr in self.rec.lock().unwrap().rec.trans.iter() {
                last.insert((tr.pid.clone(), tr.tid.clone()), (tr.kind.clone(), tr.new.clone()));
            }
            // only tasks the client has seen in a message (composite acts never report themselves)
            let seen = self.rec.lock().unwrap().seen_tids.clone();
            let fit: Vec<(String, String)> = last
                .iter()
                .filter(|(k, _)| seen.contains(*k))
                .filter(|(_, (kind, st))| match action.as_str() {
                    "cancel" => kind == "act" && is_terminal_state(st),
                    "push" => kind == "step" && st == "running",
                    _ => kind == "act" && !is_terminal_state(st),
                })
                .map(|(k, _)| k.clone())
                .collect();
            if !fit.is_empty() {
                t = fit[vsim::choose(site::CLIENT, fit.len() as u32) as usize].clone();
            }
        }
        let mut options = Map::new();
        match action.as_str() {
            "error" => {
                options.insert("ecode".into(), json!("adv_err"));
                options.insert("message".into(), json!("adversary"));
            }
            "back" => {
                // a step id of the model, or nonsense
                let mut steps: Vec<String> = vec!["no_such_step".into()];
                for m in &self.sc.models {
                    m.visit_steps(&mut |s| steps.push(s.id.clone()));
                }
                let s = steps[vsim::choose(site::CLIENT, steps.len() as u32) as usize].clone();
                options.insert("to".into(), json!(s));
            }
            "push" => {
                options.insert("uses".into(), json!("acts.core.irq"));
                options.insert("key".into(), json!(format!("pushed{}", self.adv_done)));
            }
            _ => {}
        }
        // option variants: declared outputs of every act of the models are supplied half of the time
        if vsim::choose(site::CLIENT, 2) == 1 {
            for m in &self.sc.models {
                m.visit_acts(&mut |a| {
                    for o in &a.outputs {
                        options.insert(o.clone(), json!(7));
                    }
                });
            }
            options.insert("adv_extra".into(), json!(1));
        }
        self.adv_done += 1;
        let engine = self.engine().clone();
        do_action(&engine, &self.rec, &t.0, &t.1, &action, &options, "", "adversary", true);
        self.rec.lock().unwrap().rec.count("adversary.actions");
        true
    }

    /// the driver: alternate settling with harness operations until nothing is left to do
    pub fn drive(&mut self) {
        loop {
            // processes that start at this quiescent point
            let starts: Vec<Start> = self.sc.starts.iter().filter(|s| s.at_q == self.qidx).cloned().collect();
            for s in &starts {
                self.start(s);
            }
            let out = self.settle();
            if out == vsim::Outcome::StepCap {
                break;
            }
            if self.sc.capture {
                self.capture("");
            }
            self.qidx += 1;
            if self.ops_done >= self.sc.max_ops {
                self.rec.lock().unwrap().rec.count("driver.max_ops");
                break;
            }
            self.ops_done += 1;
            vsim::set_epoch(self.epoch);
            if self.apply_faults() {
                continue;
            }
            if self.adversary_act() {
                continue;
            }
            // time that passes before the client's next action (only while the client has something to answer)
            let has_open = !self.rec.lock().unwrap().open.is_empty();
            if has_open {
                let due: Option<TimeOp> = self.sc.time_ops.iter().skip(self.time_ops_done).next().filter(|o| o.before_action <= self.reacts_done).cloned();
                if let Some(op) = due {
                    self.time_ops_done += 1;
                    vsim::jump_us(op.jump_us);
                    vsim::log(&format!("JUMP {}us", op.jump_us));
                    {
                        let mut g = self.rec.lock().unwrap();
                        let qidx = self.qidx;
                        g.rec.ops.push(OpRec { seq: vsim::seq(), qidx, op: "jump".into(), detail: op.jump_us.to_string() });
                        g.rec.count("fault.jump");
                    }
                    if self.tick() {
                        self.rec.lock().unwrap().rec.count("fault.tick_while_open");
                    }
                    continue;
                }
            }
            if let Some(oa) = self.pick_open() {
                let engine = self.engine().clone();
                let client = self.sc.client.clone();
                react(&engine, &self.rec, &client, &oa, true);
                self.reacts_done += 1;
                continue;
            }
            // later starts / faults still to come?
            let later = self.sc.starts.iter().any(|s| s.at_q >= self.qidx) || self.sc.faults.iter().any(|f| f.at_q >= self.qidx);
            if self.ticks_left > 0 {
                self.ticks_left -= 1;
                if self.tick() {
                    continue;
                }
            }
            if later {
                continue;
            }
            break;
        }
    }

    pub fn finish(self) -> RunRecord {
        let rec = self.rec.clone();
        World::detach();
        // leak the engine: its tasks are dropped with the simulation
        if let Some(e) = self.engine {
            std::mem::forget(e);
        }
        if let Some(f) = &self.db_file {
            let _ = std::fs::remove_file(f);
            let _ = std::fs::remove_file(format!("{}-wal", f));
            let _ = std::fs::remove_file(format!("{}-shm", f));
            let _ = std::fs::remove_file(format!("{}-journal", f));
        }
        let mut g = rec.lock().unwrap();
        let mut r = std::mem::take(&mut g.rec);
        r.steps = self.total_steps;
        r
    }
}

pub fn reaction_for(client: &ClientSpec, oa: &OpenAct) -> Reaction {
    match client.reactions.get(&oa.key) {
        Some(v) if !v.is_empty() => v[oa.occ.min(v.len() - 1)].clone(),
        _ => client.default.clone(),
    }
}

pub fn react(engine: &Engine, rec: &Rec, client: &ClientSpec, oa: &OpenAct, at_q: bool) {
    let r = reaction_for(client, oa);
    if r.action == "none" {
        return;
    }
    if r.action == "cancel_prev" {
        // instead of answering this interrupt: cancel the act this client completed last (an act of an
        // earlier step), the documented use of `cancel`
        let prev = rec.lock().unwrap().rec.actions.iter().rev().find(|a| a.ok && a.action == "complete" && a.pid == oa.pid && a.tid != oa.tid).map(|a| (a.tid.clone(), a.key.clone()));
        match prev {
            Some((tid, key)) => {
                do_action(engine, rec, &oa.pid, &tid, "cancel", &r.options, &key, "client", at_q);
            }
            None => {
                do_action(engine, rec, &oa.pid, &oa.tid, "complete", &r.options, &oa.key, "client", at_q);
            }
        }
        return;
    }
    for _ in 0..=r.repeat {
        do_action(engine, rec, &oa.pid, &oa.tid, &r.action, &r.options, &oa.key, "client", at_q);
    }
}

#[allow(clippy::too_many_arguments)]
pub fn do_action(engine: &Engine, rec: &Rec, pid: &str, tid: &str, action: &str, options: &Map<String, Value>, key: &str, by: &str, at_q: bool) -> bool {
    let seq0 = vsim::bump_seq();
    vsim::next_activity();
    let vars: Vars = Value::Object(options.clone()).into();
    let ex = engine.executor();
    let a = ex.act();
    let res = std::panic::catch_unwind(std::panic::AssertUnwindSafe(|| match action {
        "complete" => a.complete(pid, tid, &vars),
        "submit" => a.submit(pid, tid, &vars),
        "skip" => a.skip(pid, tid, &vars),
        "abort" => a.abort(pid, tid, &vars),
        "error" => a.error(pid, tid, &vars),
        "back" => a.back(pid, tid, &vars),
        "cancel" => a.cancel(pid, tid, &vars),
        "remove" => a.remove(pid, tid, &vars),
        "push" => a.push(pid, tid, &vars),
        "set_process_vars" => a.set_process_vars(pid, tid, &vars),
        other => Err(acts::ActError::Action(format!("harness: unknown action {other}"))),
    }));
    let seq1 = vsim::bump_seq();
    let (ok, err) = match res {
        Ok(Ok(())) => (true, String::new()),
        Ok(Err(e)) => (false, e.to_string()),
        Err(p) => {
            let msg = p.downcast_ref::<String>().cloned().or_else(|| p.downcast_ref::<&str>().map(|s| s.to_string())).unwrap_or_default();
            rec.lock().unwrap().rec.panics.push(format!("action {action}: {msg}"));
            (false, format!("PANIC: {msg}"))
        }
    };
    let short: String = err.chars().take(120).collect();
    vsim::log(&format!("A {by} {action} {pid} key={key} opts={} -> {}", Value::Object(options.clone()), if ok { "ok".to_string() } else { format!("err({short})") }));
    rec.lock().unwrap().rec.actions.push(ActionRec {
        seq0,
        seq1,
        pid: pid.into(),
        tid: tid.into(),
        action: action.into(),
        options: Value::Object(options.clone()),
        ok,
        err,
        key: key.into(),
        by: by.into(),
        at_quiescence: at_q,
    });
    ok
}
