//! Helpers over process images (live dump / rows).
use crate::model::*;
use crate::obs::*;
use std::collections::BTreeMap;

pub fn task<'a>(p: &'a ProcImg, tid: &str) -> Option<&'a TaskImg> {
    p.tasks.iter().find(|t| t.tid == tid)
}

/// the engine's notion of parent: walk `prev` until the node level drops
pub fn parent<'a>(p: &'a ProcImg, t: &TaskImg) -> Option<&'a TaskImg> {
    let mut prev = t.prev.clone();
    let mut guard = 0;
    while let Some(tid) = prev {
        guard += 1;
        if guard > 10_000 {
            return None;
        }
        match task(p, &tid) {
            Some(x) => {
                if x.level < t.level {
                    return Some(x);
                }
                prev = x.prev.clone();
            }
            None => return None,
        }
    }
    None
}

pub fn ancestors<'a>(p: &'a ProcImg, t: &TaskImg) -> Vec<&'a TaskImg> {
    let mut out = vec![];
    let mut cur = parent(p, t);
    while let Some(x) = cur {
        out.push(x);
        cur = parent(p, x);
        if out.len() > 1000 {
            break;
        }
    }
    out
}

/// every task started beneath `t` (transitively, by the parent relation)
pub fn beneath<'a>(p: &'a ProcImg, t: &TaskImg) -> Vec<&'a TaskImg> {
    p.tasks.iter().filter(|x| x.tid != t.tid && ancestors(p, x).iter().any(|a| a.tid == t.tid)).collect()
}

pub fn is_hook_task(t: &TaskImg) -> bool {
    t.data.get("$is_event_processed").and_then(|v| v.as_bool()).unwrap_or(false)
}

pub fn under_hook_task(p: &ProcImg, t: &TaskImg) -> bool {
    is_hook_task(t) || ancestors(p, t).iter().any(|a| is_hook_task(a))
}

/// role of a branch node in the models of the scenario: if | else | needs
pub fn branch_roles(models: &[MWorkflow]) -> BTreeMap<String, String> {
    let mut out = BTreeMap::new();
    for m in models {
        m.visit_steps(&mut |s| {
            for b in &s.branches {
                let r = match &b.kind {
                    BranchKind::If(_) => "if",
                    BranchKind::Else => "else",
                    BranchKind::Needs(_) => "needs",
                };
                out.insert(b.id.clone(), r.to_string());
            }
        });
    }
    out
}

/// un-fired timeout rules of a task: hooks contain a Timeout entry whose flag is not in data
pub fn unfired_timeouts(t: &TaskImg) -> usize {
    let mut n = 0;
    if let Some(list) = t.hooks.get("Timeout").and_then(|v| v.as_array()) {
        for h in list {
            if let Some(on) = h.get("Timeout").and_then(|x| x.get("on")).and_then(|v| v.as_str()) {
                let key = format!("$is_timeout_{}", on);
                if !t.data.get(&key).and_then(|v| v.as_bool()).unwrap_or(false) {
                    n += 1;
                }
            }
        }
    }
    n
}
