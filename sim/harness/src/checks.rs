//! Check framework: a check is a function from a case seed to a case outcome (scenario, runs,
//! violations, coverage facts).  The same function serves exploration, replay and shrinking.
use crate::obs::RunRecord;
use crate::run::{run, RunOpts};
use crate::scenario::Scenario;
use serde::{Deserialize, Serialize};
use serde_json::{json, Value};
use std::collections::BTreeMap;
use vsim::rng::Rng;

#[derive(Clone, Debug, Serialize, Deserialize)]
pub struct Violation {
    pub property: String,
    pub kind: String,
    /// the few structured facts that identify what failed, independent of ids and timing
    pub signature: Value,
    pub detail: String,
}

impl Violation {
    pub fn new(property: &str, kind: &str, signature: Value, detail: String) -> Self {
        Violation { property: property.into(), kind: kind.into(), signature, detail }
    }
    pub fn class(&self) -> String {
        format!("{}|{}|{}", self.property, self.kind, self.signature)
    }
}

pub struct CaseCtx {
    pub check: String,
    pub tier: String,
    pub case_seed: u64,
    /// generator stream of the case
    pub rng: Rng,
    pub scenario_override: Option<Scenario>,
    pub decisions_override: Option<Vec<Vec<(u16, u32, u32)>>>,
    pub strict: bool,
    pub keep_log: bool,
    pub run_idx: usize,
    // collected
    pub decisions: Vec<Vec<(u16, u32, u32)>>,
    pub diverged: Option<String>,
    pub counters: BTreeMap<String, u64>,
    pub sim_time_us: i64,
    pub steps: u64,
    pub runs: u64,
    pub sched_hash: u64,
    pub log_hashes: Vec<u64>,
    pub logs: Vec<Vec<String>>,
    pub panics: Vec<String>,
}

impl CaseCtx {
    pub fn new(check: &str, tier: &str, case_seed: u64) -> Self {
        CaseCtx {
            check: check.into(),
            tier: tier.into(),
            case_seed,
            rng: Rng::new(vsim::rng::mix(&[case_seed, 0x5ce0a210])),
            scenario_override: None,
            decisions_override: None,
            strict: false,
            keep_log: false,
            run_idx: 0,
            decisions: vec![],
            diverged: None,
            counters: BTreeMap::new(),
            sim_time_us: 0,
            steps: 0,
            runs: 0,
            sched_hash: 0,
            log_hashes: vec![],
            logs: vec![],
            panics: vec![],
        }
    }

    /// the scenario of the case: generated from the case stream, or the one of the replay file
    pub fn scenario(&mut self, gen: impl FnOnce(&mut Rng) -> Scenario) -> Scenario {
        // the generator always consumes the stream, so that later draws do not depend on the override
        let g = gen(&mut self.rng);
        match &self.scenario_override {
            Some(s) => s.clone(),
            None => g,
        }
    }

    pub fn run_seed(&self, idx: usize) -> u64 {
        vsim::rng::mix(&[self.case_seed, 0x9d5, idx as u64])
    }

    /// one simulated run (the i-th of this case)
    pub fn run(&mut self, sc: &Scenario) -> RunRecord {
        let idx = self.run_idx;
        self.run_idx += 1;
        let decisions = self.decisions_override.as_ref().and_then(|d| d.get(idx).cloned());
        let opts = RunOpts { seed: self.run_seed(idx), decisions, strict: self.strict, keep_log: self.keep_log };
        let rec = run(sc, opts);
        self.absorb(&rec);
        rec
    }

    pub fn run_with<F>(&mut self, sc: &Scenario, body: F) -> RunRecord
    where
        F: FnOnce(&mut crate::world::World) + Send + 'static,
    {
        let idx = self.run_idx;
        self.run_idx += 1;
        let decisions = self.decisions_override.as_ref().and_then(|d| d.get(idx).cloned());
        let opts = RunOpts { seed: self.run_seed(idx), decisions, strict: self.strict, keep_log: self.keep_log };
        let rec = crate::run::run_with(sc, opts, body);
        self.absorb(&rec);
        rec
    }

    fn absorb(&mut self, rec: &RunRecord) {
        self.decisions.push(rec.decisions.clone());
        if self.diverged.is_none() {
            self.diverged = rec.diverged.clone();
        }
        for (k, v) in &rec.counters {
            if k == "sim.max_ready" {
                let e = self.counters.entry(k.clone()).or_default();
                *e = (*e).max(*v);
            } else {
                *self.counters.entry(k.clone()).or_default() += v;
            }
        }
        self.sim_time_us += rec.sim_time_us;
        self.steps += rec.steps;
        self.runs += 1;
        self.sched_hash = vsim::fnv(self.sched_hash ^ 0x9e37, &rec.sched_hash.to_le_bytes());
        self.log_hashes.push(rec.log_hash);
        if self.keep_log {
            self.logs.push(rec.log_lines.clone());
        }
        for p in &rec.panics {
            if self.panics.len() < 5 {
                self.panics.push(p.chars().take(300).collect());
            }
        }
        if !rec.panics.is_empty() {
            *self.counters.entry("engine.panics".into()).or_default() += rec.panics.len() as u64;
        }
    }

    pub fn count(&mut self, k: &str, n: u64) {
        *self.counters.entry(k.to_string()).or_default() += n;
    }
}

#[derive(Clone, Debug, Default, Serialize, Deserialize)]
pub struct CaseOut {
    pub violations: Vec<Violation>,
    /// the property's subject actually occurred in this case
    pub nontrivial: bool,
    pub scenario: Option<Scenario>,
    /// short human-readable description of the case (evidence sample)
    pub sample: Value,
    /// hash of the canonical outcome (distinct end states)
    pub outcome_hash: u64,
    /// the case could not be judged (discarded, counted)
    pub discarded: Option<String>,
    /// what makes this case distinct when it is not (scenario, schedule, faults)
    pub distinct_key: Option<u64>,
}

pub type CaseFn = fn(&mut CaseCtx) -> CaseOut;

pub struct CheckDef {
    pub id: &'static str,
    pub title: &'static str,
    pub case: CaseFn,
    /// what makes a case non-trivial / distinct (evidence `rule`)
    pub rule: &'static str,
    /// evidence level
    pub level: &'static str,
    pub assumptions: &'static [&'static str],
    /// probes that the thorough tier expects to be non-zero
    pub probes: &'static [&'static str],
    /// number of cases of the quick tier
    pub quick_cases: u64,
    /// top-level scenario keys the shrinker must leave alone (the oracle derives its expectation
    /// from the case stream for them, not from the scenario)
    pub no_shrink: &'static [&'static str],
}

pub fn registry() -> Vec<CheckDef> {
    let mut v = vec![];
    v.extend(crate::props::all());
    v
}

pub fn find(id: &str) -> Option<CheckDef> {
    registry().into_iter().find(|c| c.id == id)
}

pub fn sample_of(sc: &Scenario, extra: Value) -> Value {
    let models: Vec<String> = sc.models.iter().map(crate::model::to_yaml).collect();
    json!({
        "models_yaml": models,
        "starts": sc.starts,
        "engine": sc.engine,
        "client": {"mode": sc.client.mode, "order": sc.client.order, "reactions": sc.client.reactions, "ack": sc.client.ack},
        "faults": sc.faults,
        "knobs": sc.knobs,
        "outcome": extra,
    })
}
