//! RefFlow — a small reference interpretation of the control-flow fragment, written from the
//! property statements and the README (not from the engine's code).  Conditions are evaluated on the
//! harness's own expression AST.
use crate::model::*;
use std::collections::BTreeMap;

#[derive(Clone, Debug, PartialEq)]
pub enum Expect {
    /// exactly one task instance, final state `completed`
    Completed,
    /// exactly one task instance, final state `skipped`
    Skipped,
    /// no task instance
    Absent,
    /// the statements leave it open
    Either,
}

#[derive(Clone, Debug, Default)]
pub struct Pred {
    pub nodes: BTreeMap<String, Expect>,
    /// (a, b): b is created only after a is terminal
    pub after: Vec<(String, String)>,
    /// kind of every node id
    pub kinds: BTreeMap<String, String>,
}

struct Env<'a> {
    vals: &'a BTreeMap<String, i64>,
}

impl<'a> Env<'a> {
    fn cond(&self, c: &Option<Cond>) -> Option<bool> {
        match c {
            None => Some(true),
            Some(c) => c.eval(&|v| self.vals.get(v).copied()),
        }
    }
}

fn mark_absent_step(s: &MStep, p: &mut Pred, e: Expect) {
    p.nodes.insert(s.id.clone(), e.clone());
    p.kinds.insert(s.id.clone(), "step".into());
    for a in &s.acts {
        p.nodes.insert(a.id.clone(), e.clone());
        p.kinds.insert(a.id.clone(), "act".into());
    }
    for b in &s.branches {
        p.nodes.insert(b.id.clone(), e.clone());
        p.kinds.insert(b.id.clone(), "branch".into());
        for s2 in &b.steps {
            mark_absent_step(s2, p, e.clone());
        }
    }
}

fn run_steps(steps: &[MStep], env: &Env, p: &mut Pred, either: bool) {
    let mut prev: Option<String> = None;
    for s in steps {
        if let Some(pr) = &prev {
            p.after.push((pr.clone(), s.id.clone()));
        }
        run_step(s, env, p, either);
        prev = Some(s.id.clone());
    }
}

fn run_step(s: &MStep, env: &Env, p: &mut Pred, either: bool) {
    p.kinds.insert(s.id.clone(), "step".into());
    let c = env.cond(&s.cond);
    if either || c.is_none() {
        mark_absent_step(s, p, Expect::Either);
        return;
    }
    if c == Some(false) {
        mark_absent_step(s, p, Expect::Absent);
        p.nodes.insert(s.id.clone(), Expect::Skipped);
        return;
    }
    p.nodes.insert(s.id.clone(), Expect::Completed);
    // acts one after another
    let mut prev: Option<String> = None;
    let mut unknown = false;
    for a in &s.acts {
        p.kinds.insert(a.id.clone(), "act".into());
        if let Some(pr) = &prev {
            p.after.push((pr.clone(), a.id.clone()));
        }
        let ac = env.cond(&a.cond);
        let e = if unknown || ac.is_none() {
            unknown = true;
            Expect::Either
        } else if ac == Some(false) {
            Expect::Skipped
        } else {
            Expect::Completed
        };
        p.nodes.insert(a.id.clone(), e);
        prev = Some(a.id.clone());
    }
    // branches
    let mut held: BTreeMap<String, Option<bool>> = BTreeMap::new();
    for b in &s.branches {
        if let BranchKind::If(c) = &b.kind {
            held.insert(b.id.clone(), c.eval(&|v| env.vals.get(v).copied()));
        }
    }
    // a needs-branch whose needed siblings were all skipped is left open by the statements; whether
    // it counts as "a sibling that ran" for the else-branch is then open as well
    let needs_open = s.branches.iter().any(|b| match &b.kind {
        BranchKind::Needs(ns) => !ns.iter().any(|n| held.get(n) == Some(&Some(true))),
        _ => false,
    });
    let any_unknown = held.values().any(|h| h.is_none()) || needs_open;
    let any_held = held.values().any(|h| *h == Some(true));
    for b in &s.branches {
        p.kinds.insert(b.id.clone(), "branch".into());
        let (run, open): (bool, bool) = match &b.kind {
            BranchKind::If(_) => match held[&b.id] {
                Some(x) => (x, false),
                None => (false, true),
            },
            BranchKind::Else => {
                if any_unknown {
                    (false, true)
                } else {
                    (!any_held, false)
                }
            }
            BranchKind::Needs(ns) => {
                // starts after a needed sibling finished; a needed sibling that was skipped leaves it open
                let mut some_completed = false;
                let mut unknown = false;
                for n in ns {
                    match held.get(n) {
                        Some(Some(true)) => some_completed = true,
                        Some(Some(false)) => {}
                        _ => unknown = true,
                    }
                }
                if some_completed {
                    for n in ns {
                        if held.get(n) == Some(&Some(true)) {
                            p.after.push((n.clone(), b.id.clone()));
                        }
                    }
                    (true, false)
                } else {
                    let _ = unknown;
                    (false, true)
                }
            }
        };
        if open {
            p.nodes.insert(b.id.clone(), Expect::Either);
            for s2 in &b.steps {
                mark_absent_step(s2, p, Expect::Either);
            }
        } else if run {
            p.nodes.insert(b.id.clone(), Expect::Completed);
            run_steps(&b.steps, env, p, false);
        } else {
            p.nodes.insert(b.id.clone(), Expect::Skipped);
            for s2 in &b.steps {
                mark_absent_step(s2, p, Expect::Absent);
            }
        }
    }
}

/// prediction for a model of the control fragment under a completer client
pub fn predict(w: &MWorkflow, vals: &BTreeMap<String, i64>) -> Pred {
    let mut p = Pred::default();
    p.nodes.insert(w.id.clone(), Expect::Completed);
    p.kinds.insert(w.id.clone(), "workflow".into());
    let env = Env { vals };
    run_steps(&w.steps, &env, &mut p, false);
    p
}

/// prediction for a list of steps (one visit of them) under the given values
pub fn predict_steps(steps: &[MStep], vals: &BTreeMap<String, i64>) -> Pred {
    let mut p = Pred::default();
    let env = Env { vals };
    run_steps(steps, &env, &mut p, false);
    p
}

/// is the model inside the fragment RefFlow interprets (no writers, no generators, no catches,
/// no jumps, no step with both acts and branches)?
pub fn in_control_fragment(w: &MWorkflow) -> bool {
    let mut ok = true;
    w.visit_steps(&mut |s| {
        if !s.catches.is_empty() || !s.timeouts.is_empty() || !s.setup.is_empty() || s.next.is_some() || (!s.acts.is_empty() && !s.branches.is_empty()) {
            ok = false;
        }
    });
    w.visit_acts(&mut |a| {
        if !matches!(a.kind, ActKind::Irq | ActKind::Msg) || !a.catches.is_empty() || !a.timeouts.is_empty() || !a.setup.is_empty() {
            ok = false;
        }
    });
    ok && w.setup.is_empty()
}
