//! Layer 2 glue: the engine's lock facade (hook H3) reports to the virtual-thread scheduler.
use vsim::vthread;

pub fn install_sync_hooks() {
    acts::verif::set_sync_hooks(Some(acts::verif::SyncHooks {
        sched_point: |_kind, _addr| {
            if vthread::active() {
                vthread::point(false);
            }
        },
        blocked: |addr| {
            if !vthread::active() {
                return false;
            }
            if !vthread::lock_blocked(addr) {
                // every virtual thread waits for an engine lock: the engine deadlocked on its own locks
                panic!("vsim: engine lock deadlock at {:#x}", addr);
            }
            true
        },
    }));
}

/// run the executor on the calling virtual thread (thread 0) until every other virtual thread is done
/// and nothing is ready; returns the number of polls
pub fn run_executor_with_threads(step_cap: u64) -> (u64, bool) {
    let mut n = 0u64;
    loop {
        vthread::point(false);
        if vsim::step() {
            n += 1;
            if n >= step_cap {
                return (n, false);
            }
            continue;
        }
        if vsim::fire_due_timers() > 0 {
            continue;
        }
        if vthread::all_others_done() && vsim::ready_len() == 0 {
            return (n, true);
        }
        if !vthread::idle() {
            if vthread::all_others_done() && vsim::ready_len() == 0 {
                return (n, true);
            }
            // nobody can run although threads are not done
            return (n, false);
        }
    }
}
