//! Scenario: everything that is decided *before* a run, as explicit data (stored in replay files).
use crate::model::MWorkflow;
use serde::{Deserialize, Serialize};
use serde_json::{Map, Value};
use std::collections::BTreeMap;

#[derive(Clone, Debug, Serialize, Deserialize, PartialEq)]
pub struct EngineCfg {
    pub cache_cap: i64,
    pub keep_processes: bool,
    pub tick_interval_secs: i64,
    pub max_message_retry_times: i32,
    /// "mem" | "sqlite"
    pub store: String,
}

impl Default for EngineCfg {
    fn default() -> Self {
        EngineCfg { cache_cap: 1024, keep_processes: false, tick_interval_secs: 15, max_message_retry_times: 20, store: "mem".into() }
    }
}

#[derive(Clone, Debug, Serialize, Deserialize, PartialEq)]
pub struct ChanSpec {
    pub label: String,
    /// channel id given to the engine; empty = default (generated) id
    pub id: String,
    pub ack: bool,
    pub typ: String,
    pub state: String,
    pub tag: String,
    pub key: String,
    pub uses: String,
}

impl ChanSpec {
    pub fn default_chan(label: &str) -> Self {
        ChanSpec { label: label.into(), id: String::new(), ack: false, typ: "*".into(), state: "*".into(), tag: "*".into(), key: "*".into(), uses: "*".into() }
    }
}

#[derive(Clone, Debug, Serialize, Deserialize, PartialEq)]
pub struct Start {
    pub model: String,
    pub vars: Map<String, Value>,
    /// explicit pid (None: the engine generates one)
    pub pid: Option<String>,
    /// start when the driver reaches this quiescent-point index (0 = at the beginning)
    pub at_q: usize,
}

#[derive(Clone, Debug, Serialize, Deserialize, PartialEq)]
pub struct Reaction {
    /// complete | submit | skip | abort | error | back | cancel | remove | push | none
    pub action: String,
    pub options: Map<String, Value>,
    /// how many extra identical calls follow (client retry after a lost reply)
    pub repeat: u8,
}

impl Reaction {
    pub fn complete() -> Self {
        Reaction { action: "complete".into(), options: Map::new(), repeat: 0 }
    }
    pub fn of(action: &str) -> Self {
        Reaction { action: action.into(), options: Map::new(), repeat: 0 }
    }
}

#[derive(Clone, Debug, Serialize, Deserialize, PartialEq)]
pub struct ClientSpec {
    /// sequential: one reaction per quiescent point | spawned: every reaction is its own simulated
    /// task, racing with the engine's tasks | inline: reactions run inside the message handler
    pub mode: String,
    /// fifo | random | canonical (smallest (key, occurrence) first)
    pub order: String,
    /// reactions per act key, by occurrence (the last entry repeats)
    pub reactions: BTreeMap<String, Vec<Reaction>>,
    pub default: Reaction,
    /// acknowledge policy per delivery on acking channels: "now" | "never" | "later:<n deliveries>" | "twice"
    pub ack: String,
    /// acknowledge policy per message key (overrides `ack`)
    #[serde(default)]
    pub ack_by_key: BTreeMap<String, String>,
}

impl Default for ClientSpec {
    fn default() -> Self {
        ClientSpec { mode: "sequential".into(), order: "fifo".into(), reactions: BTreeMap::new(), default: Reaction::complete(), ack: "never".into(), ack_by_key: BTreeMap::new() }
    }
}

#[derive(Clone, Debug, Serialize, Deserialize, PartialEq)]
pub struct FaultOp {
    /// quiescent-point index at which the fault is applied
    pub at_q: usize,
    /// restart | evict | evict_all | jump | tick (the engine's tick timer fires at this quiescent point)
    pub kind: String,
    /// evict: index into the started pids; jump: micro-seconds
    pub arg: i64,
}

#[derive(Clone, Debug, Serialize, Deserialize, PartialEq)]
pub struct AdversarySpec {
    /// probability per quiescent point (per mille) of an adversarial action
    pub permille: u32,
    pub max_actions: u32,
    /// which actions may be used
    pub actions: Vec<String>,
}

#[derive(Clone, Debug, Serialize, Deserialize, PartialEq)]
pub struct SimKnobs {
    pub policy: String,
    pub tie_permille: u32,
    pub max_delta_us: u32,
}

impl Default for SimKnobs {
    fn default() -> Self {
        SimKnobs { policy: "random".into(), tie_permille: 20, max_delta_us: 40 }
    }
}

#[derive(Clone, Debug, Serialize, Deserialize, PartialEq)]
pub struct ChanOp {
    /// applied after this many executor steps of the run (task boundary)
    pub at_step: u64,
    /// close | unsub | reopen
    pub kind: String,
    pub chan: usize,
}

#[derive(Clone, Debug, Serialize, Deserialize, PartialEq)]
pub struct Scenario {
    pub models: Vec<MWorkflow>,
    /// additional models given as YAML text (hand-written witnesses)
    pub raw_models: Vec<String>,
    /// deploy through YAML text (true) or through the JSON form (false)
    pub deploy_yaml: bool,
    pub starts: Vec<Start>,
    pub engine: EngineCfg,
    /// channel 0 is the client's channel
    pub channels: Vec<ChanSpec>,
    pub client: ClientSpec,
    pub faults: Vec<FaultOp>,
    pub chan_ops: Vec<ChanOp>,
    pub adversary: Option<AdversarySpec>,
    /// how many times the driver may jump the clock to the next timer when nothing else can happen
    pub ticks: u32,
    /// forward jump of the clock before the engine is built (tick phase)
    pub pre_jump_us: i64,
    pub knobs: SimKnobs,
    /// cap on driver operations (client reactions + faults + ticks)
    pub max_ops: u32,
    /// cap on executor steps per settle
    pub step_cap: u64,
    /// capture live/rows images at every quiescent point
    pub capture: bool,
    /// time passes between client actions: before the client's n-th action (counted from 0) the clock jumps
    /// forward and the engine's tick fires, while interrupts are open.  Keyed to the client's progress, not to the
    /// quiescent-point index, so that an inserted fault (restart, eviction) does not move it
    #[serde(default, skip_serializing_if = "Vec::is_empty")]
    pub time_ops: Vec<TimeOp>,
}

#[derive(Clone, Debug, Serialize, Deserialize, PartialEq)]
pub struct TimeOp {
    pub before_action: u32,
    pub jump_us: i64,
}

impl Default for Scenario {
    fn default() -> Self {
        Scenario {
            models: vec![],
            raw_models: vec![],
            deploy_yaml: true,
            starts: vec![],
            engine: EngineCfg::default(),
            channels: vec![ChanSpec::default_chan("main")],
            client: ClientSpec::default(),
            faults: vec![],
            chan_ops: vec![],
            adversary: None,
            ticks: 0,
            pre_jump_us: 0,
            knobs: SimKnobs::default(),
            max_ops: 400,
            step_cap: 20_000,
            capture: false,
            time_ops: vec![],
        }
    }
}

impl Scenario {
    pub fn shape_hash(&self) -> u64 {
        // structure of the models, the client table and the configuration (not the seed)
        let v = serde_json::json!({"m": self.models, "r": self.raw_models, "s": self.starts, "c": self.client, "e": self.engine, "ch": self.channels, "adv": self.adversary});
        vsim::hash_str(&v.to_string())
    }
    pub fn fault_hash(&self) -> u64 {
        let v = serde_json::json!({"f": self.faults, "co": self.chan_ops, "t": self.ticks, "j": self.pre_jump_us, "to": self.time_ops});
        vsim::hash_str(&v.to_string())
    }
}
