#!/bin/bash
# confirm a seeded change in its scratch worktree: suite passes with the change, demo fails with it, demo passes without it
# usage: confirm_seed.sh <ID> <n> <append:relative/test/file.rs | module> <test filter> [demo file name]
ID=$1; N=$2; MODE=$3; FILTER=$4; DEMO=${5:-}
WT=${WT:-/tmp/wt-$ID}; S=${S:-/tmp/seed-$ID/$N}; OUT=$S/confirm.txt
cd $WT || exit 2
git checkout -q -- . ; git clean -fdq acts store
[ -z "$DEMO" ] && DEMO=$(ls $S | grep -E "demo.*\.rs$" | head -1)
install_demo() {
  case $MODE in
    append:*) cat $S/$DEMO >> ${MODE#append:} ;;
    module) cp $S/$DEMO acts/src/scheduler/tests/seed_demo.rs; echo 'mod seed_demo;' >> acts/src/scheduler/tests/mod.rs ;;
    module:*) cp $S/$DEMO ${MODE#module:}/seed_demo.rs; echo 'mod seed_demo;' >> ${MODE#module:}/mod.rs ;;
  esac
}
{
echo "== confirm $ID/$N at $(git rev-parse --short HEAD) mode=$MODE filter=$FILTER demo=$DEMO"
git apply --check $S/patch.diff && echo "patch applies: yes" || { echo "patch applies: NO"; exit 3; }
# 1. suite with the change
git apply $S/patch.diff
echo "-- suite with the change"
timeout -k 1 900 cargo test --workspace --offline 2>&1 | grep -E "^test result|FAILED|failed" | head -12
# 2. demo with the change
install_demo
echo "-- demo WITH the change"
timeout -k 1 600 cargo test -p ${PKG:-acts} --offline --lib $FILTER 2>&1 | grep -E "^test |^test result|panicked" | head -12
# 3. demo without the change
git checkout -q -- . ; git clean -fdq acts store
install_demo
echo "-- demo WITHOUT the change"
timeout -k 1 600 cargo test -p ${PKG:-acts} --offline --lib $FILTER 2>&1 | grep -E "^test |^test result|panicked" | head -12
git checkout -q -- . ; git clean -fdq acts store
} > $OUT 2>&1
tail -40 $OUT
