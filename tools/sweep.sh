#!/bin/bash
# sweep: run the given checks over several base seeds (for background harvesting of rare classes)
# usage: tools/sweep.sh "C01 C02" 1 20 [cases]
cd "$(dirname "$0")/.." || exit 2
./check --build || exit 2
for s in $(seq "$2" "$3"); do
  for c in $1; do
    VERIF_SEED=$s VERIF_CASES=${4:-8000} ./check "$c" --tier quick 2>/dev/null | grep -E "VIOLATION|class:|HARNESS|^  " | sed "s/^/seed=$s $c: /"
  done
done
echo SWEEP-DONE
