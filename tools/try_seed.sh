#!/bin/bash
# apply a seeded change to /repo, run the given checks (quick tier), undo it straight afterwards
# usage: tools/try_seed.sh <patch.diff> "C05 C02" [tier]
patch="$1"; checks="$2"; tier="${3:-quick}"
cd /verif || exit 2
if [ -n "$(git -C /repo status --porcelain)" ]; then echo "repo not clean"; exit 2; fi
if ! git -C /repo apply "$patch" 2>/dev/null; then
  if ! git -C /repo apply --3way "$patch" 2>/dev/null; then echo "PATCH-DOES-NOT-APPLY $patch"; git -C /repo reset -q --hard HEAD; exit 3; fi
fi
for c in $checks; do
  out=$(VERIF_EVIDENCE_DIR=/dev/shm/acts-seed-evidence ./check "$c" --tier "$tier" 2>/dev/null | grep -E "VIOLATION|class:|HARNESS|quick:|thorough:" | cut -c1-260)
  if echo "$out" | grep -q VIOLATION; then echo "[$c] DETECTED"; else echo "[$c] missed"; fi
  echo "$out" | grep -E "class:|HARNESS" | head -4
done
git -C /repo reset -q --hard HEAD
git -C /repo status --porcelain | head -3
