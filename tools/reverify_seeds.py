#!/usr/bin/env python3
"""Re-run every stored seeded change against the current /repo tree.

For each /verif/seeded/<name>/: git -C /repo apply patch.diff (3-way fallback), run the quick tier of the checks
named in meta.json `detected_by` ("Cxx quick"), git -C /repo reset --hard.  Prints one line per change and writes
/verif/seeded/STATUS.md (what catches what on the tree of that day).  /repo must be clean.

usage: tools/reverify_seeds.py [name ...]
"""
import json, os, re, subprocess, sys

ROOT = "/verif"


def sh(cmd, **kw):
    return subprocess.run(cmd, shell=True, capture_output=True, text=True, **kw)


def main():
    names = sys.argv[1:] or sorted(os.listdir(f"{ROOT}/seeded"))
    names = [n for n in names if os.path.isdir(f"{ROOT}/seeded/{n}")]
    if sh("git -C /repo status --porcelain").stdout.strip():
        print("repo not clean")
        sys.exit(2)
    head = sh("git -C /repo rev-parse --short HEAD").stdout.strip()
    rows = []
    for n in names:
        d = f"{ROOT}/seeded/{n}"
        meta = json.load(open(f"{d}/meta.json"))
        if meta.get("obsolete_since"):
            rows.append((n, "obsolete (the change no longer breaks the property on this tree)", "", meta.get("idea", "")))
            print(n, "obsolete")
            continue
        checks = []
        for c in re.findall(r"(C\d\d) quick", meta.get("detected_by", "")):
            if c not in checks:
                checks.append(c)
        if not checks:
            checks = [meta["property"]]
        ap = sh(f"git -C /repo apply {d}/patch.diff")
        if ap.returncode != 0:
            ap = sh(f"git -C /repo apply --3way {d}/patch.diff")
        if ap.returncode != 0:
            sh("git -C /repo reset -q --hard HEAD")
            rows.append((n, "PATCH-DOES-NOT-APPLY", "", ""))
            print(n, "PATCH-DOES-NOT-APPLY")
            continue
        res = []
        classes = []
        for c in checks:
            out = sh(f"cd {ROOT} && VERIF_EVIDENCE_DIR=/dev/shm/acts-seed-evidence ./check {c} --tier quick").stdout
            det = "VIOLATION" in out
            # how many cases of the quick tier violated (a small number = a thin margin: the detection depends on
            # few draws of the generator)
            nv = 0
            try:
                ev = json.load(open(f"/dev/shm/acts-seed-evidence/{c}.json"))
                nv = sum(ev["coverage"].get("violation_classes_seen", {}).values())
            except Exception:
                pass
            res.append(f"{c}:{'DETECTED' if det else 'missed'}({nv})")
            for l in out.splitlines():
                if l.strip().startswith("class:") and len(classes) < 3:
                    classes.append(l.strip()[7:160])
        sh("git -C /repo reset -q --hard HEAD")
        rows.append((n, " ".join(res), "; ".join(classes), meta.get("idea", "")))
        print(n, " ".join(res))
    with open(f"{ROOT}/seeded/STATUS.md", "w") as f:
        f.write(f"# seeded changes against /repo at {head}\n\n(in parentheses: number of violating cases in the quick tier)\n\n| change | quick checks | first classes reported |\n|---|---|---|\n")
        for n, r, c, _ in rows:
            f.write(f"| {n} | {r} | {c.replace('|', '/')} |\n")
    bad = [r for r in rows if "DETECTED" not in r[1] and not r[1].startswith("obsolete")]
    print(f"{len(rows)} changes, {len(rows) - len(bad)} detected by at least one check; not detected: {[b[0] for b in bad]}")
    sh(f"cd {ROOT} && ./check --build")


if __name__ == "__main__":
    main()
