#!/bin/bash
# run the thorough tier of every claimed property one after another (background harvesting of rare classes)
# usage: tools/thorough_all.sh [budget seconds per property] [checks...]
cd "$(dirname "$0")/.." || exit 2
B=${1:-600}; shift
CH=${*:-C01 C02 C03 C04 C05 C06 C07 C08 C09 C10 C11 C12 C13 C15 C16 C17 C18 C19}
./check --build || exit 2
for c in $CH; do
  VERIF_BUDGET_S=$B ./check "$c" --tier thorough 2>/dev/null | grep -E "VIOLATION|class:|HARNESS|KNOWN|thorough:" | cut -c1-1500 | sed "s/^/$c: /"
  echo "$c rc=${PIPESTATUS[0]}"
done
echo THOROUGH-DONE
