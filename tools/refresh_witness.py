#!/usr/bin/env python3
"""re-derive the `expect` of a witness from what the current oracle reports on it (after a signature format change)
usage: refresh_witness.py <witness.json> [kind]"""
import json, subprocess, sys
import os
path = os.path.abspath(sys.argv[1])
kind = sys.argv[2] if len(sys.argv) > 2 else None
out = subprocess.run(["/verif/sim/target/release/acts-sim", "replay", path, "--lenient"], capture_output=True, text=True, cwd="/verif/work").stdout
res = [json.loads(l[7:]) for l in out.splitlines() if l.startswith("RESULT ")]
vs = res[-1]["violations"] if res else []
if kind:
    vs = [v for v in vs if v["kind"] == kind]
if not vs:
    sys.exit(f"{path}: no violation reported")
w = json.load(open(path))
w["expect"] = {"kind": vs[0]["kind"], "signature": vs[0]["signature"], "class": vs[0]["class"]}
w["detail"] = vs[0]["detail"]
json.dump(w, open(path, "w"), indent=1)
print(path, "->", vs[0]["class"])
