#!/usr/bin/env python3
"""Determinism campaign: every case is a pure function of (base seed, property, case number).

For each check the same case range is executed
  A: by one worker process, cases in order,
  B: by 16 worker processes working concurrently (stride 16), i.e. other processes, other
     pids, other machine load, other case neighbourhood inside each process,
  C: by 5 worker processes (stride 5), started with another PATH-independent environment
     (different TMPDIR name length, HOME) to vary the initial stack/heap layout,
and the per-case lines (event-log hash, outcome hash, schedule hash, number of runs, executor steps,
violation classes) are diffed.  Exit 0: identical; 1: differences (printed); 2: a worker failed.

usage: tools/determinism.py [cases-per-check=400] [checks...]
"""
import json, os, subprocess, sys, tempfile, shutil

ROOT = os.path.dirname(os.path.dirname(os.path.abspath(__file__)))
BIN = os.path.join(ROOT, "sim/target/release/acts-sim")
ALL = ["C01", "C02", "C03", "C04", "C05", "C05b", "C06", "C07", "C08", "C09", "C09b", "C10", "C11", "C12", "C13", "C13b", "C15", "C16", "C17", "C18", "C18b", "C19"]


def run_split(check, n, workers, tmp, tag, env_extra):
    procs = []
    for w in range(workers):
        count = (n - w + workers - 1) // workers
        hp = os.path.join(tmp, f"{check}-{tag}-{w}.hashes")
        op = os.path.join(tmp, f"{check}-{tag}-{w}.json")
        env = dict(os.environ)
        env.update(env_extra)
        cmd = [BIN, "worker", "--check", check, "--tier", "quick", "--seed", os.environ.get("VERIF_SEED", "1"), "--from", str(w), "--stride", str(workers),
               "--count", str(count), "--budget-s", "3600", "--out", op, "--hashes", hp, "--det-every", "0"]
        procs.append((subprocess.Popen(cmd, env=env, stdout=subprocess.DEVNULL, stderr=subprocess.DEVNULL), hp))
    lines = {}
    for p, hp in procs:
        if p.wait() != 0:
            print(f"HARNESS-ERROR worker failed: {check} {tag}")
            sys.exit(2)
        for l in open(hp):
            idx, rest = l.split(" ", 1)
            lines[int(idx)] = rest.strip()
    return lines


def main():
    args = sys.argv[1:]
    n = int(args[0]) if args and args[0].isdigit() else 400
    checks = [a for a in args if not a.isdigit()] or ALL
    subprocess.run([os.path.join(ROOT, "check"), "--build"], check=True, stdout=subprocess.DEVNULL)
    tmp = tempfile.mkdtemp(prefix="acts-det-", dir="/dev/shm")
    bad = 0
    total = 0
    try:
        for c in checks:
            a = run_split(c, n, 1, tmp, "a", {})
            b = run_split(c, n, 16, tmp, "b", {})
            d = run_split(c, n, 5, tmp, "c", {"HOME": "/nonexistent-home-for-determinism", "VERIF_PADDING": "x" * 3000})
            diffs = [i for i in range(n) if not (a.get(i) == b.get(i) == d.get(i))]
            total += n
            print(f"{c}: {n} cases x 3 executions (1 / 16 / 5 processes): {len(diffs)} differ")
            for i in diffs[:3]:
                print(f"   case {i}:\n     A {a.get(i)}\n     B {b.get(i)}\n     C {d.get(i)}")
            bad += len(diffs)
    finally:
        shutil.rmtree(tmp, ignore_errors=True)
    print(f"determinism: {total} cases, {bad} differ")
    sys.exit(1 if bad else 0)


if __name__ == "__main__":
    main()
