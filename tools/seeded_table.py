#!/usr/bin/env python3
"""Rewrite the table of seeded changes in DESIGN.md (section 12.6) from /verif/seeded/*/meta.json."""
import json, os, re

ROOT = "/verif"
rows = []
for n in sorted(os.listdir(f"{ROOT}/seeded")):
    d = f"{ROOT}/seeded/{n}"
    if not os.path.isdir(d):
        continue
    m = json.load(open(d + "/meta.json"))
    det = m["detected_by"]
    checks = []
    for c in re.findall(r"(C\d\d) quick", det):
        if c not in checks:
            checks.append(c)
    if n == "C13-1":
        checks = ["C13 (part C13b, layer 2)"]
    idea = m["idea"].replace("|", "/")
    if len(idea) > 150:
        idea = idea[:147] + "..."
    first = m.get("first_try", "").split(";")[0].replace(" (see detected_by)", "")
    caught = ", ".join(checks)
    if m.get("obsolete_since"):
        caught += " - until 899a5cd; since then the change no longer breaks the property (benign), no check reports it"
    rows.append(f"| {n} | {idea} | {caught} | {first} |")
s = open(f"{ROOT}/DESIGN.md").read()
a = s.index("| change | what was changed | caught by (quick tier) | caught at the first try |")
b = s.index("Details per change (what it needs to manifest")
s = s[:a] + "| change | what was changed | caught by (quick tier) | caught at the first try |\n|---|---|---|---|\n" + "\n".join(rows) + "\n\n" + s[b:]
open(f"{ROOT}/DESIGN.md", "w").write(s)
print(len(rows), "rows")
