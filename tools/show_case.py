#!/usr/bin/env python3
"""print a replay file: detail, model outline, client table, and the A/T lines of its (lenient) replay
usage: show_case.py <file> [shrink-budget-s]"""
import json,subprocess,sys
f=sys.argv[1]
if len(sys.argv)>2:
    g=f.replace('.json','.min.json')
    subprocess.run(['/verif/sim/target/release/acts-sim','shrink','--in',f,'--out',g,'--budget-s',sys.argv[2]],capture_output=True)
    f=g
r=json.load(open(f))
print(r['detail'][:600])
sc=r['scenario']
print('client:',json.dumps({k:[(x['action'],x['options'],x['repeat']) for x in v] for k,v in sc['client']['reactions'].items()}), sc['client']['mode'], sc['client']['order'])
print('starts:',json.dumps(sc['starts']),'faults:',json.dumps(sc.get('faults')),'adv:',json.dumps(sc.get('adversary'))[:300])
def k(a):
    return a['kind'] if isinstance(a['kind'],str) else json.dumps(a['kind'])[:80]
def show(steps,ind):
    for s in steps:
        print(' '*ind+'step',s['id'],('if '+json.dumps(s['cond'])) if s['cond'] else '', ('next='+s['next']) if s['next'] else '', 'catches',[(c['on'],[x['id'] for x in c['steps']]) for c in s['catches']] if s['catches'] else '')
        for a in s['acts']:
            print(' '*ind+'  act',a['id'],k(a),a['key'],('if '+json.dumps(a['cond'])) if a['cond'] else '','catches' if a['catches'] else '',[(c['on'],[x['id'] for x in c['steps']]) for c in a['catches']] if a['catches'] else '')
            for c in a['catches']: show(c['steps'],ind+6)
        for b in s['branches']:
            print(' '*ind+'  branch',b['id'],json.dumps(b['kind'])[:90]); show(b['steps'],ind+4)
        for c in s['catches']: show(c['steps'],ind+6)
for m in sc['models']:
    print('model',m['id'],'anon',m.get('anon'))
    show(m['steps'],2)
out=subprocess.run(['/verif/sim/target/release/acts-sim','replay',f,'--lenient','--log'],capture_output=True,text=True)
print('\n'.join(l[:210] for l in (out.stdout+out.stderr).splitlines() if ' A ' in l or ' T ' in l or 'violation' in l or ' F ' in l or 'RESTART' in l or 'EVICT' in l)[:9000])
