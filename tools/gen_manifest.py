#!/usr/bin/env python3
"""Write /verif/MANIFEST.json from the table below (kept in one place so that it stays valid)."""
import json, os, subprocess
ROOT = os.path.dirname(os.path.dirname(os.path.abspath(__file__)))

CHECKS = {
    "C01": dict(
        text="Seeded search over generated control-flow programs (a fifth with lifecycle-hook acts on workflow and steps) x valuations x scheduler policies on the real engine under the simulator; the exact quiescence oracle ('no runnable task, nothing in flight') decides at every quiescent point that each unfinished process waits on a deliverable interrupt / un-fired timeout / running sub-process, and bounded liveness (every interrupt answered => terminal event) at the last one. Sampling, not enumeration: a clean batch is evidence, not proof.",
        note="Trusted: the simulator's executor/clock/id shims, hook H1 (live dump reads the cache only). Assumes a monotone clock and in-process clients; storage errors are not injected.",
        technique="deterministic simulation: seeded schedule search + quiescence invariant + bounded liveness",
        ref="DESIGN.md §6 C01"),
    "C02": dict(
        text="Seeded search over generated programs (catches, generators, lifecycle hooks) x scripted clients using all ten action kinds (duplicates, missing/extra options), a sixth of the cases playing a multi-step cancel history on purpose x an adversary aiming any action at any task ever seen, under seeded schedules; a monitor over the complete trace of task state writes (hook H2) checks stage monotonicity, finality of terminal states and the single catch exception. Sampling: evidence, not proof.",
        note="Trusted: hook H2 reports every state write (Task::set_state/set_pure_state are the only writers); simulator shims. Layer 1: client calls are atomic with respect to engine tasks (racing threads are C05's layer-2 part).",
        technique="deterministic simulation: seeded schedule + adversarial client histories, transition-trace monitor",
        ref="DESIGN.md §6 C02"),
    "C03": dict(
        text="Seeded search over programs with sequential and parallel structure (a third of them with catches on steps and acts, a sixth with a backward `next` jump that visits a stretch of steps several times) x clients that abort/skip/error/back/cancel/submit/remove in one branch while siblings are open, plus late adversary actions; at every quiescent point the live dump (H1), the stored rows and the event stream are checked: completed composites have only terminal tasks beneath them, process state = root state (live and stored), exactly one start and one terminal event, nothing open and nothing accepted after a non-error ending. Sampling: evidence, not proof.",
        note="Trusted: H1 live dump, simulator quiescence. Hierarchy is judged at quiescent points, not at the instant of each write. back/cancel are not combined with generator acts (DESIGN.md §10).",
        technique="deterministic simulation: seeded schedule + client histories, invariants at quiescent points",
        ref="DESIGN.md §6 C03"),
    "C05": dict(
        text="Two parts. (a) Admission matrix, layer 1: every client/adversary action issued at a quiescent point (ten action kinds x open act / terminal act in each terminal state / step / branch / root / unknown tid / unknown pid / finished process x exact, missing and extra options) is judged against the live dump before it (necessary conditions => Err) and a rejected action must leave live tasks, rows and streams identical between the two bracketing quiescent points. (b) At-most-once under races, layer 2: 2..8 virtual client threads (real OS threads released one at a time) issue the same action on one open act while the executor runs as one more virtual thread; the baton moves at intercepted engine lock acquisitions with seeded preemption probability; over the invoke/return history exactly one call returns Ok, the successor has one task instance, the act one terminal message; an engine deadlock on its own locks is detected. Sampling: evidence, not proof.",
        note="Trusted: H1 live dump; hook H3 (lock facade): preemption only at engine lock acquisitions, which guard all shared engine state. Layer 1 treats one client call as atomic; layer 2 does not.",
        technique="deterministic simulation: seeded adversarial action matrix with before/after comparison (layer 1) + seeded preemptive schedules of racing client threads at lock points (layer 2)",
        ref="DESIGN.md §6 C05"),
    "C04": dict(
        text="Differential and metamorphic: generated models of the bounded grammar (a quarter of them with a backward `next` jump: a counting step, a jump out of an if-branch guarded by the counter, 2..4 visits) x valuation x three variants (declared / shuffled / reversed branch order, each under another scheduler policy, clock-tie rate, client mode and deploy path); every run is compared with the reference interpreter RefFlow - for loop models RefLoop, which interprets the visits one after another with the counter updated - (which nodes have how many task instances, their final states, ordering constraints evaluated on the H2 trace, for loops inside every visit) and the variants with each other (outcome independent of declaration order and schedule). Sampling: evidence, not proof.",
        note="Trusted: RefFlow (written from the statements; `either` where they are open: needs-branch whose needed sibling was skipped, and the else-branch beside it). Worker-thread counts are approximated by task-level interleavings (layer 1). Loops are of one family (README idiom: counter step, guarded jump out of a branch back to an earlier top-level step); the counter's code act is the only writer.",
        technique="deterministic simulation: differential against a reference interpreter + metamorphic over branch order and schedules",
        ref="DESIGN.md §6 C04"),
    "C06": dict(
        text="Seeded search over models with catches on acts and steps (nested, several codes, catch-all, empty, non-matching) x one error source (client error action at a seeded interrupt, throwing script, unknown package), in 45% of the client cases followed by a second client error at an interrupt inside the steps of the catch that took the first (those steps often carry a catch of their own) x schedules; the oracle derives the catching task from the model and checks the propagation chain (states, original code and message), exactly-once execution of exactly the first matching catch's steps, completion of the catcher not before its catch steps have closed, continuation with its successor and the error/complete events; for the second error: a task catches only once, the inner steps' own catch still takes it, otherwise it climbs past the used catcher. Sampling: evidence, not proof.",
        note="Trusted: the harness's own model AST to find the catcher; H2 trace; H1 live dump for error fields. One error source per run, or two in sequence (the second inside the first catch's steps).",
        technique="deterministic simulation: seeded error injection through the client/script/package seam, model-derived oracle",
        ref="DESIGN.md §6 C06"),
    "C09": dict(
        text="Two parts. (a) Seeded search over ack policies per message key (now / never / later:n / twice), the ticks at which the client answers interrupts, max_message_retry_times 1..5, tick_interval_secs {1,15}, stalled ticks, redo/clear operations, engine restarts at quiescent points, both store backends (in-memory with collection transplant, SQLite file) and schedules, on the discrete-event clock. RefMsgStore per message id over the recorded history (store-call log from proxy collections, deliveries with simulator sequence numbers, ack/action/redo instants, message rows at every quiescent point): stored before the handler, same id/content, retry counts consecutive up to the maximum, then error and silence until redo, no redelivery from a tick that started after ack/close, statuses never move back, un-acked open messages are redelivered. (b) Threads, layer 2: a client thread acknowledges 1..all of the 2..5 stale messages while the executor runs as one more virtual thread on which the due tick redelivers them (query, then per message update + emit); the baton moves at intercepted engine lock acquisitions, so an acknowledgement lands between the tick's read and its write of the same record; afterwards 3..6 ticks on layer 1: an acknowledged message is never delivered by a tick that started after the acknowledgement returned and its stored status stays `acked`. Sampling: evidence, not proof.",
        note="Trusted: proxy collections registered through the public Extender (call order), timer/clock shims. A redelivery emitted before the ack returned is in flight and accepted. Below 300 stored messages.",
        technique="deterministic simulation: discrete-event ticks, lossy/late/duplicate acknowledgements, restart faults, history check against a per-message reference model (layer 1) + seeded preemptive schedules of an acknowledging client thread against the redelivering tick at lock points (layer 2)",
        ref="DESIGN.md §6 C09"),
    "C10": dict(
        text="Seeded operation histories (create with adversarial field values, find/exists of present and absent ids, update of every field, delete, a second create of an existing id, update/delete of absent or already deleted ids, queries with AND/OR groups incl. sub-conditions that match nothing and NULL tests, numeric/text order keys, offset/limit windows) on each of the six collections and both backends, with close+reopen of the SQLite file between operations as the applicable fault; every answer (records field by field, row set, order, count/page_count/page_num/page_size) is compared with RefCollection, hence the backends with each other. The statement has no scheduling dimension and none is pretended. Sampling: evidence, not proof.",
        note="Trusted: RefCollection (BTreeMap + direct evaluator; text order = byte order; a record without a value is `not equal` to a value). A second create of an id is refused, update/delete of an absent id answer false and create nothing (what a keyed collection does, and what SQLite does). Operations the statement leaves open are not generated (range operators on text, paging without a total order). Collections are reached through hook H1 on engines built with and without the SQLite plugin.",
        technique="deterministic simulation harness used as a seeded history generator against a reference collection, with close/reopen faults",
        ref="DESIGN.md §6 C10"),
    "C11": dict(
        text="Seeded search over generated models (control flow, catches, generated acts, set/code acts writing variables of enclosing scopes, env at start and from scripts, timeout rules on interrupts with clock jumps and ticks while they are open) x clients using all action kinds incl. cancel x both store backends x schedules, a quarter of the programs with nodes written without an id: at every quiescent point the live process (hook H1, cache only, never loads) is compared field by field with its process row and task rows (task set, state, prev, data, err, times; process state, err, env). Sampling: evidence, not proof.",
        note="Trusted: hook H1 reads the cache without loading; rows are read from the backing collections directly. Compared only at quiescent points (the statement's scope).",
        technique="deterministic simulation: exact quiescence detection, live-vs-stored image comparison at every quiescent point",
        ref="DESIGN.md §6 C11"),
    "C12": dict(
        category="fault_enumeration",
        text="Fault enumeration over crash points x seeded programs (a third of them with steps / branches / acts written without an id, whose generated ids must survive the reload; a quarter with timeout rules and time passing between the client's actions; a fifth with a call of a sub-workflow that completes, fails or is aborted): run A (no fault) records its quiescent points; runs B_i inject an engine restart on the same store (SQLite file / transplanted in-memory collections) or a cache eviction at quiescent point i - every point in the thorough tier, up to five seeded points and one pair in the quick tier - and must show the same client history (canonical sequential client), the same per-phase message multisets up to ids/tids/timestamps, the same final task outcomes and the same terminal event and outputs as A. Programs and schedules are sampled; within a program the crash points are enumerated.",
        note="Trusted: crash = drop every task/timer of the old engine epoch without running it, only the store survives; eviction through the guarded cache hook. Faults at quiescent points only (the statement's scope). An else-branch still `pending` at the end of a truncated history counts as `skipped` (it is decided lazily).",
        technique="deterministic simulation: crash/restart and eviction injected at every quiescent point, differential against the uninterrupted run",
        ref="DESIGN.md §6 C12"),
    "C13": dict(
        text="Two parts. (a) Seeded search over multisets of 2..12 (thorough: up to 64) concurrently started processes of 1..3 generated models with overlapping variable names and per-process valuations, scripts that write the process env along the flow and a last step that reads it, nodes without an id in a third of the cases, cache capacities from 1 to above the process count (capacity below the count forces evictions and reloads in mid-flight), both store backends, seeded cross-process answer orders and schedules, and a second start with a live pid: each process's projection (message multiset up to ids, final task outcomes, terminal event and outputs) must equal the same (model, valuation, client table) run alone with the default cache; pids unique, duplicate start refused, no foreign pid in any message. (b) Threads, layer 2: 1..3 virtual client threads answer every interrupt (complete / skip / abort / error / submit / remove) as soon as its message is delivered while the executor runs as one more virtual thread; the baton moves at intercepted engine lock acquisitions, so client actions land in the middle of the scheduler's work on the same process; judged by the invariants that hold for every interleaving (C02 lifecycle monitor, C08 stream monitor, C03 hierarchy at the final quiescent point, no deadlock on engine locks). Sampling: evidence, not proof.",
        note="Trusted: moka behind the shim (maintenance applied eagerly so that evictions are a deterministic function of the operation sequence). Part (a) approximates worker-thread counts by task-level interleaving (layer 1) and uses models without run-time generated acts (C12's recorded finding); part (b) preempts at engine lock acquisitions only (hook H3), which guard all shared engine state.",
        technique="deterministic simulation: per-process projection of a loaded multi-process run vs solo runs with capacity-driven eviction faults (layer 1) + seeded preemptive schedules of client threads against the engine thread at lock points (layer 2)",
        ref="DESIGN.md §6 C13"),
    "C15": dict(
        text="Seeded search over parent/child(/grandchild) models, child endings (completed, error by the client, failure of the child by itself - throwing script, missing grandchild model: an error without a code -, aborted, missing model), a catch on the calling act in a sixth of the cases (a failed child is then taken by it), and interleavings of the child's return with other parent activity: the calling act is open at every quiescent point before the child's terminal event, closed exactly once afterwards with the prescribed state/data/error, the child's inputs equal the call's options, the successor starts once and only after the call is closed, the parent's terminal event is generated after the child's. Sampling: evidence, not proof.",
        note="Trusted: H1 live dumps at quiescent points, id shim for event generation order. Child ending `skipped` is not reachable through client actions and is not generated.",
        technique="deterministic simulation: seeded interleaving of sub-process return and parent activity, trace/dump oracle",
        ref="DESIGN.md §6 C15"),
    "C16": dict(
        text="Seeded search over models with parallel/sequence/block acts over lists of length 0..5 (nested blocks), setup acts bound to all five hook kinds on workflow/step/act, a push into an open step, and a fifth of the hook-free models inside a loop (every visit generates its own groups), under seeded answer orders and schedules; counting oracles over stream, trace and final live dump: one group per element with its own $index/$value, all-at-once vs in-order, generator completes last, hook firings = matching lifecycle events, one push = one act. Sampling: evidence, not proof.",
        note="Trusted: H1/H2; the reading of `on: step` (fires when a step completes) and of before_update/updated (acts created/closed under the owner) stated in the evidence assumptions. Hooks are only counted for processes that finished.",
        technique="deterministic simulation: seeded answer orders/schedules, counting oracle over stream and trace",
        ref="DESIGN.md §6 C16"),
    "C07": dict(
        text="Differential against RefEnv (a map per declaring scope): 1..3 concurrent processes of a generated straight-line program of writers (set, script $set, script return value, client options of complete / submit / skip / remove carrying the declared output, the other workflow variable, an undeclared and a __private key) and readers (message parameter templates - also of names outside the reader's scope chain: the step-scoped name from other steps, the start values of the other processes -, branch conditions, terminal outputs), each process with its own start valuation and client-supplied values, under seeded schedules that interleave the processes; every observed value, the branch taken, the exact key set and values of the terminal outputs, the confinement of undeclared/private keys and of a step-declared name are compared with the model. Sampling: evidence, not proof.",
        note="Trusted: RefEnv (names declared by the workflow or by one step; a read of a name that no scope in the reader's ancestry holds must yield no value). The cut of options is judged only for acts that declare outputs. Client actions happen at quiescent points; the processes interleave at task granularity.",
        technique="deterministic simulation: differential against a scope/environment reference model, multi-process interleaving",
        ref="DESIGN.md §6 C07"),
    "C17": dict(
        text="Seeded search over 2..5 interleaved processes of 1..3 generated models (with 0..2 registered start events) ending by completion / error / abort / skip, a third of the models with a workflow-level lifecycle hook act (started while the process is already ending), keep_processes on/off, both store backends, cache capacity 1..2 in a third of the cases (a process may end while the cache does not hold it), an acknowledging channel (message records exist), late adversary actions and the final removal of a model: after every terminal event and the following quiescence the exact row sets are compared - default: no process/task row of that pid left and every further action refused; keep: all rows remain and are terminal; rows of other pids and all message records untouched; model removal deletes exactly the events with that mid and exactly that model row. Sampling: evidence, not proof.",
        note="Trusted: rows read from the backing collections at quiescent points; one client action between two quiescent points (sequential client), so that a row diff is attributable.",
        technique="deterministic simulation: exact quiescence after terminal events, store row-set diff oracle",
        ref="DESIGN.md §6 C17"),
    "C18": dict(
        text="Two parts. (a) Seeded search over 1..5 filtered channels (type/state/key/uses/tag patterns from literal, *, ?, {a,b}, [a-c]) beside a match-all channel, with channels closed / unsubscribed / re-registered under the same id at seeded task boundaries while dispatches are in flight, over generated runs with tags on workflow, steps and acts: RefGlob (independent matcher) decides for every message and channel delivered <=> registered at the dispatch and all patterns match (tag: message tag or model tag); never twice per channel id; nothing on a filtered channel that the match-all channel did not see. (b) A handler unsubscribes its own or another channel from inside its callback, on its k-th delivery (the dispatch that calls it is in flight by definition), with the engine's lock operations intercepted: the call returns (no deadlock on the handler maps), the run goes on, and the unsubscribed channel receives nothing that was generated after the call returned. Sampling: evidence, not proof.",
        note="Trusted: RefGlob for the stated subset (non-empty alternatives); one dispatch task delivers to all channels registered at that instant, so registration is judged at the dispatch observed through the match-all channel.",
        technique="deterministic simulation: (de)registration faults at task boundaries, per-channel delivery vs an independent glob reference",
        ref="DESIGN.md §6 C18"),
    "C19": dict(
        text="Seeded search over rule sets (1..3 rules in s/m/h/d on an act - an interrupt or, in a quarter of the cases, a call of a sub-workflow -, optionally on its step), the kind of the answer (complete, or an error that the enclosing step's catch takes, so that the closed act stays beneath a running process), tick_interval_secs, tick phase, the simulated instant of the client's answer (before/around/after each limit, never) and stalled ticks (forward clock jumps of several periods), on the discrete-event clock (simulated hours to days per run cost milliseconds). RefTimeline per task instance and rule: at most one firing, never before start_time+limit, fired by the quiescent point after the first tick at/after the limit while the task is open, none once the task is terminal, the timed task's state unchanged by a firing. Sampling: evidence, not proof.",
        note="Trusted: the timer/clock shims (tokio interval with burst catch-up, chrono now). Millisecond granularity: a tick within 1 ms of a limit is accepted either way. The timed process is kept cached.",
        technique="deterministic simulation: discrete-event clock, seeded tick phase / answer instant / clock-jump faults, timeline reference model",
        ref="DESIGN.md §6 C19"),
    "C08": dict(
        text="Seeded search over programs (control flow, catches, generated acts, lifecycle hooks) x clients using all action kinds, an eighth answering inside the message handler and ending every interrupt the same way x dispatch interleavings (every message dispatch is an independently scheduled task): the complete stream of a match-all channel is checked against the H2 trace and live dumps for multiplicity per task, created-before-terminal and parent-before-child in generation order (id shim), completeness, field agreement, unique ids. Sampling: evidence, not proof.",
        note="Trusted: id shim sequence numbers as generation order; H2 trace for final states. Delivery order of independently dispatched messages is not constrained (the statement speaks of generation).",
        technique="deterministic simulation: seeded dispatch interleavings, stream/trace consistency monitor",
        ref="DESIGN.md §6 C08"),
}

NOT_APPLICABLE = {
    "C14": "pure function of its input (value conversion / template substitution): no schedule, clock, fault or interleaving in the statement or the anchored code; generating inputs would be property-based testing, not simulation (DESIGN.md §10)",
    "C20": "serialisation round trip, deploy bookkeeping and tree building are pure / sequential and deterministic; the one crash-dependent consequence (a field lost in serialisation changes behaviour after reload) is what C12 exercises (DESIGN.md §10)",
}

PENDING = "check not built yet in this revision (claimed in DESIGN.md; will move to `checks` when its oracle lands)"

def main():
    props = [json.loads(l)["id"] for l in open(os.path.join(ROOT, "properties.jsonl"))]
    hooks = subprocess.run(["git", "-C", "/repo", "log", "--format=%h %s", "b418843..HEAD"], capture_output=True, text=True).stdout.splitlines()
    hook_commits = [l.split()[0] for l in hooks if l.split(" ", 1)[1].startswith("verif:")]
    checks = []
    for pid in props:
        if pid in CHECKS:
            c = CHECKS[pid]
            checks.append({
                "property_id": pid,
                "quick_cmd": f"./check {pid} --tier quick",
                "thorough_cmd": f"./check {pid} --tier thorough",
                "evidence_file": f"/verif/evidence/{pid}.json",
                "replay_cmd_template": "./check --replay {path}",
                "engine": "acts-sim",
                "level_claimed": {"category": c.get("category", "exploration"), "text": c["text"], "design_ref": c["ref"]},
                "level_note": c["note"],
                "technique": c["technique"],
            })
    na = []
    for pid in props:
        if pid not in CHECKS:
            na.append({"property_id": pid, "reason": NOT_APPLICABLE.get(pid, PENDING)})
    m = {
        "version": 1,
        "setup_cmd": "./check --build",
        "hooks": {
            "guard": "cargo feature `verif` of crate acts (off by default); add_only is false only because of hook H3: ten `use std::sync::{..RwLock/Mutex}` import lines now name the new module crate::sync, which is a plain re-export of std::sync::{Mutex,RwLock} unless the feature is on",
            "enable": "the shadow manifest /verif/sim/acts/Cargo.toml (generated from /repo/acts/Cargo.toml) compiles /repo/acts/src with default = [\"verif\"]; /repo's own manifests are never edited",
            "baseline_off_cmd": "cd /repo && cargo nextest run --workspace --no-fail-fast --test-threads 8 --offline",
            "source_commits": hook_commits,
            "add_only": False,
        },
        "engines": [{"name": "acts-sim", "path": "/verif/sim", "serves_properties": [c["property_id"] for c in checks],
                     "kind_free_text": "deterministic simulator (own executor, clock, id source, store/crash/eviction faults) running the real engine compiled from /repo; seeded search, replay files, shrinking"}],
        "checks": checks,
        "not_applicable": na,
        "notes": "Exit codes: 0 held, 1 violation (VIOLATION property=<id> replay=<path>), 2 harness error. Known findings: /verif/known_findings.jsonl. VERIF_SEED sets the base seed.",
    }
    json.dump(m, open(os.path.join(ROOT, "MANIFEST.json"), "w"), indent=1)

if __name__ == "__main__":
    main()
