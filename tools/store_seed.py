#!/usr/bin/env python3
"""store a confirmed seeded change under /verif/seeded/<name>/
usage: store_seed.py <ID> <n> "<one-line idea>" "<what it needs to manifest>" "<detected by (checks / classes)>" """
import json, os, shutil, sys
ID, n, idea, needs, detected = sys.argv[1:6]
src = f"/tmp/seed-{ID}/{n}"
dst = f"/verif/seeded/{ID}-{n}"
os.makedirs(dst, exist_ok=True)
for f in os.listdir(src):
    if f.endswith((".diff", ".rs", ".md")) or f == "confirm.txt":
        shutil.copy(os.path.join(src, f), os.path.join(dst, f))
confirm = open(os.path.join(src, "confirm.txt")).read() if os.path.exists(os.path.join(src, "confirm.txt")) else ""
meta = {
    "property": ID,
    "idea": idea,
    "needs_to_manifest": needs,
    "origin": "written by a fresh sub-agent that was given only the property text and its own scratch worktree of /repo (nothing from /verif)",
    "confirmed_by_me": {
        "how": "tools/confirm_seed.sh in the scratch worktree /tmp/wt-%s: git apply patch.diff; cargo test --workspace --offline (suite); demo installed and run with the change; change reverted, demo run again" % ID,
        "suite_passes_with_change": "FAILED" not in confirm.split("-- demo WITH")[0] and "test result: ok. 634 passed" in confirm,
        "demo_fails_with_change": "FAILED" in (confirm.split("-- demo WITH")[1].split("-- demo WITHOUT")[0] if "-- demo WITH" in confirm else ""),
        "demo_passes_without_change": "FAILED" not in (confirm.split("-- demo WITHOUT")[1] if "-- demo WITHOUT" in confirm else "FAILED") and "test result: ok" in (confirm.split("-- demo WITHOUT")[1] if "-- demo WITHOUT" in confirm else ""),
        "log": "confirm.txt",
    },
    "checked_against": "tools/try_seed.sh patch.diff \"<checks>\" (git -C /repo apply; ./check <id> --tier quick; git -C /repo checkout -- .)",
    "detected_by": detected,
}
json.dump(meta, open(os.path.join(dst, "meta.json"), "w"), indent=1)
print(dst, meta["confirmed_by_me"]["suite_passes_with_change"], meta["confirmed_by_me"]["demo_fails_with_change"], meta["confirmed_by_me"]["demo_passes_without_change"])
