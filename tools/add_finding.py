#!/usr/bin/env python3
"""append an entry to known_findings.jsonl from a witness file
usage: add_finding.py fixed <id> <property> "<commit subject substring>" "<what failed>"
       add_finding.py known <id> <property> "-" "<what fails>" """
import json, subprocess, sys
status, i, prop, msg, what = sys.argv[1:6]
w = json.load(open(f'/verif/known/{i}.json'))
entry = {"id": i, "status": status, "property": prop, "kind": w["expect"]["kind"], "signature": w["expect"]["signature"], "witness": f"known/{i}.json"}
if status == "fixed":
    out = subprocess.run(["git", "-C", "/repo", "log", "--format=%h %s"], capture_output=True, text=True).stdout.splitlines()
    c = next(l.split()[0] for l in out if msg in l)
    entry["commit"] = c
    entry["what"] = f"fixed: property={prop} {c} {what}"
else:
    entry["what"] = what
lines = [l for l in open('/verif/known_findings.jsonl') if l.strip() and json.loads(l)["id"] != i]
lines.append(json.dumps(entry) + "\n")
open('/verif/known_findings.jsonl', 'w').writelines(lines)
print(entry["what"])
