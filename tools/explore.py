#!/usr/bin/env python3
"""quick calibration helper: run N cases of a check on all cores, print violation classes"""
import json, os, subprocess, sys
BIN="/verif/sim/target/release/acts-sim"
prop=sys.argv[1]; n=int(sys.argv[2]) if len(sys.argv)>2 else 1600; seed=sys.argv[3] if len(sys.argv)>3 else "20260926"
W=16; os.makedirs("/verif/work",exist_ok=True)
ps=[]
for w in range(W):
    out=f"/verif/work/x-{prop}-{w}.json"
    ps.append((out,subprocess.Popen([BIN,"worker","--check",prop,"--seed",seed,"--from",str(w),"--stride",str(W),"--count",str((n+W-1)//W),"--budget-s","300","--out",out],cwd="/verif/work")))
classes={}; tot=0; nt=0; disc={}; cnt={}; first={}
for out,p in ps:
    p.wait(); r=json.load(open(out)); tot+=r["cases"]; nt+=r["nontrivial"]
    for k,v in r["violation_classes"].items(): classes[k]=classes.get(k,0)+v
    for k,v in r["discarded"].items(): disc[k]=disc.get(k,0)+v
    for k,v in r["counters"].items(): cnt[k]=cnt.get(k,0)+v
    for v in r["violations"]:
        first.setdefault(v["expect"]["class"], v)
    if r["nondeterminism"]: print("NONDET", r["nondeterminism"][:1])
    for pp in r.get("panics",[])[:2]: print("PANIC", pp)
print(f"{prop}: cases {tot} nontrivial {nt} discarded {disc}")
print({k:v for k,v in cnt.items() if k.startswith('probe') or k.startswith('fault') or k.startswith('engine')})
for k,v in sorted(classes.items(), key=lambda x:-x[1]):
    print(f"{v:6d}  {k}")
    print("        ", first[k]["detail"][:300] if k in first else "")
    if k in first:
        json.dump(first[k], open(f"/verif/work/first-{prop}-{abs(hash(k))%10000}.json","w"))
        print("         ->", f"/verif/work/first-{prop}-{abs(hash(k))%10000}.json")
